"""Both-way self-test of the checkers.

Applies single-site source mutations (each still parses and would still pass the 53 runnable tests, which use one
sphere, order 4, real k, whole-grid spaces) to scratch copies of /repo's ``bempp_cl`` tree and requires the named
property check to report a VIOLATION; applies behaviour-preserving rewrites and requires the checks to stay silent.
Scratch copies live under ``tempfile.mkdtemp()`` (outside /repo and /verif) and are removed afterwards.
Result: /verif/selftest/result.json.  Not part of any quick/thorough verdict.
"""

import json
import os
import shutil
import subprocess
import sys
import tempfile
import time
from concurrent.futures import ProcessPoolExecutor

from . import core

NK = "bempp_cl/core/numba_kernels.py"
KH = "bempp_cl/core/sources/include/kernels.h"

# (name, file, old, new, occurrence, [properties expected to report a violation])
MUTANTS = [
    # ---- Green's function kernels
    ("helm_sl_sign_imag", NK, "output_imag[j] = _np.sin(wavenumber_real * dist[j]) * m_inv_4pi / dist[j]", "output_imag[j] = -_np.sin(wavenumber_real * dist[j]) * m_inv_4pi / dist[j]", 0, ["C05", "C20"]),
    ("helm_sl_decay_sign", NK, "output_real[j] *= _np.exp(-wavenumber_imag * dist[j])", "output_real[j] *= _np.exp(wavenumber_imag * dist[j])", 0, ["C05", "C08"]),
    ("helm_dl_drop_imag_term", NK, "output_real[j] = (-1 - wavenumber_imag * dist[j]) * factor_real[j] - wavenumber_real * dist[j] * factor_imag[j]", "output_real[j] = (-1) * factor_real[j] - wavenumber_real * dist[j] * factor_imag[j]", 0, ["C05"]),
    ("helm_adl_singular_normal", NK, "laplace_grad[j] += diff[i, j] * test_normal[i]", "laplace_grad[j] += diff[i, j] * trial_normal[i]", 1, ["C05", "C01"]),
    ("mod_helm_sl_singular_factor", NK, "output[j] = m_inv_4pi * ewr[j] / dist[j]", "output[j] = m_inv_4pi * ewr[j] / (dist[j] * dist[j])", 1, ["C05"]),
    ("laplace_dl_sign_singular", NK, "output[j] *= -m_inv_4pi / (dist[j] * dist[j] * dist[j])", "output[j] *= m_inv_4pi / (dist[j] * dist[j] * dist[j])", 1, ["C01", "C05"]),
    ("farfield_dl_sign", NK, "output_imag[index] = factor[index] * m_inv_4pi * _np.cos(-kernel_parameters[0] * dotprod[index])", "output_imag[index] = -factor[index] * m_inv_4pi * _np.cos(-kernel_parameters[0] * dotprod[index])", 0, ["C08", "C20"]),
    # ---- adjacency / assemblers
    ("adjacent_drop_pair", NK, "        or elements[2, index1] == elements[1, index2]\n", "", 0, ["C01"]),
    ("regular_swap_fun_points", NK, "* local_trial_fun_values[0, trial_fun_index, quad_point_index]\n                                * local_test_fun_values[0, test_fun_index, test_point_index]", "* local_trial_fun_values[0, trial_fun_index, test_point_index]\n                                * local_test_fun_values[0, test_fun_index, quad_point_index]", 0, ["C01", "C04", "C07"]),
    ("regular_scatter_wrong_multiplier", NK, "* test_multipliers[test_element, test_fun_index]\n                        * trial_multipliers[trial_element, trial_fun_index]\n                    )\n\n\n@_numba.jit(nopython=True, parallel=True, error_model=\"numpy\", fastmath=True, boundscheck=False)\ndef laplace_hypersingular_regular", "* test_multipliers[test_element, test_fun_index]\n                        * test_multipliers[trial_element, trial_fun_index]\n                    )\n\n\n@_numba.jit(nopython=True, parallel=True, error_model=\"numpy\", fastmath=True, boundscheck=False)\ndef laplace_hypersingular_regular", 0, ["C04", "C01"]),
    ("helm_hyp_regular_k2_sign", NK, "curl_product[test_fun_index, trial_fun_index]\n                                - wavenumber\n                                * wavenumber", "curl_product[test_fun_index, trial_fun_index]\n                                + wavenumber\n                                * wavenumber", 0, ["C05", "C06"]),
    ("mod_hyp_singular_k2_sign", NK, "surface_curl_products[test_fun_index, trial_fun_index]\n                            + wavenumber", "surface_curl_products[test_fun_index, trial_fun_index]\n                            - wavenumber", 0, ["C05", "C06"]),
    ("hyp_singular_trial_normal", NK, "trial_surface_curl[:, fun_index] = _np.cross(trial_normal, trial_surface_gradient[:, fun_index])", "trial_surface_curl[:, fun_index] = _np.cross(test_normal, trial_surface_gradient[:, fun_index])", 0, ["C06", "C01"]),
    ("efield_singular_div_factor", NK, "                            - 4\n                            / (\n                                1j", "                            - 2\n                            / (\n                                1j", 0, ["C06"]),
    ("mfield_regular_swap_cross", NK, "test_basis_functions[i, test_fun_index, :, test_point_index],\n                                        trial_basis_functions[", "trial_basis_functions[trial_element_index, trial_fun_index, :, quad_point_index],\n                                        trial_basis_functions[", 0, ["C06", "C07"]),
    ("singular_missing_trial_jacobian", NK, "grid_data.integration_elements[test_element] * grid_data.integration_elements[trial_element]\n                )\n\n\n@_numba.jit(nopython=True, parallel=True, error_model=\"numpy\", fastmath=True, boundscheck=False)\ndef laplace_hypersingular_singular", "grid_data.integration_elements[test_element] * grid_data.integration_elements[test_element]\n                )\n\n\n@_numba.jit(nopython=True, parallel=True, error_model=\"numpy\", fastmath=True, boundscheck=False)\ndef laplace_hypersingular_singular", 0, ["C01", "C04"]),
    ("piola_missing_division", NK, "            ) / grid_data.integration_elements[element]\n    return result", "            ) / grid_data.integration_elements[element_index]\n    return result", 0, ["C06", "C09"]),
    ("edge_lengths_wrong_pair", NK, "            grid_data.vertices[:, grid_data.elements[2, element]]\n            - grid_data.vertices[:, grid_data.elements[0, element]]", "            grid_data.vertices[:, grid_data.elements[2, element]]\n            - grid_data.vertices[:, grid_data.elements[1, element]]", 0, ["C06", "C11"]),
    ("get_normals_test_mult", NK, "output[dim, nrepetitions * index + n] = grid_data.normals[element, dim] * multipliers[element]", "output[dim, nrepetitions * index + n] = grid_data.normals[element, dim] * multipliers[index]", 0, ["C01", "C02"]),
    # ---- potentials
    ("potential_x_index", NK, "* x[number_of_shape_functions * element + fun_index]\n                )\n\n    for point_index", "* x[number_of_shape_functions * element_index + fun_index]\n                )\n\n    for point_index", 0, ["C02", "C08"]),
    ("efield_potential_factor", NK, "tmp2[number_of_quad_points * element_index + quad_point_index] += 2 * factor\n\n    for point_index in _numba.prange(number_of_points):\n        test_point = points[:, point_index].copy()\n\n        kernel_values = kernel_function(test_point, global_points, None, None, kernel_parameters)\n        diff", "tmp2[number_of_quad_points * element_index + quad_point_index] += factor\n\n    for point_index in _numba.prange(number_of_points):\n        test_point = points[:, point_index].copy()\n\n        kernel_values = kernel_function(test_point, global_points, None, None, kernel_parameters)\n        diff", 0, ["C08", "C07"]),
    ("pot_real_on_complex", "bempp_cl/api/assembly/assembler.py", "return self._implementation.evaluate(np.real(x)) + 1j * self._implementation.evaluate(np.imag(x))", "return self._implementation.evaluate(np.real(x)) + self._implementation.evaluate(np.imag(x))", 0, ["C08"]),
    # ---- launch sites / roles
    ("launch_swap_normal_multipliers", "bempp_cl/core/numba_assemblers.py", "            dual_to_range.normal_multipliers,\n            domain.normal_multipliers,\n            quad_points.astype(data_type),", "            domain.normal_multipliers,\n            dual_to_range.normal_multipliers,\n            quad_points.astype(data_type),", 0, ["C01", "C04", "C07"]),
    ("launch_singular_swap_shapesets", "bempp_cl/core/numba_assemblers.py", "        dual_to_range.shapeset.evaluate,\n        domain.shapeset.evaluate,\n        numba_kernel_function,", "        domain.shapeset.evaluate,\n        dual_to_range.shapeset.evaluate,\n        numba_kernel_function,", 0, ["C01", "C04"]),
    ("launch_all_colours_at_once", "bempp_cl/core/numba_assemblers.py", "test_indices[test_color_indexptr[test_color_index] : test_color_indexptr[1 + test_color_index]],", "test_indices,", 0, ["C16"]),
    ("potential_launch_full_space", "bempp_cl/core/dense_potential_assembler.py", "x_transformed = self.space.map_to_full_grid @ (self.space.dof_transformation @ x)", "x_transformed = self.space.map_to_localised_space @ (self.space.dof_transformation @ x)", 0, ["C02"]),
    # ---- singular plumbing
    ("offset_table_swap", "bempp_cl/core/singular_assembler.py", "offset_values = _np.array([[-1, 0, 4], [1, -1, 2], [5, 3, -1]])", "offset_values = _np.array([[-1, 0, 5], [1, -1, 2], [4, 3, -1]])", 0, ["C01", "C03"]),
    ("trial_offsets_rows", "bempp_cl/core/singular_assembler.py", "] = edge_offsets[self.edge_adjacency[4, :], self.edge_adjacency[5, :]]", "] = edge_offsets[self.edge_adjacency[2, :], self.edge_adjacency[3, :]]", 0, ["C01", "C03"]),
    ("support_filter_swapped", "bempp_cl/core/singular_assembler.py", "test_support[grid.edge_adjacency[0, :]] * trial_support[grid.edge_adjacency[1, :]]", "trial_support[grid.edge_adjacency[0, :]] * test_support[grid.edge_adjacency[1, :]]", 0, ["C04", "C01"]),
    ("singular_scatter_swapped", "bempp_cl/core/dense_assembler.py", "values = singular_values * trial_multipliers[singular_cols] * test_multipliers[singular_rows]", "values = singular_values * trial_multipliers[singular_rows] * test_multipliers[singular_cols]", 0, ["C01", "C04"]),
    ("vertex_remap_wrong", "bempp_cl/api/integration/duffy_galerkin.py", "        new_points[0, :] = points[0, :]\n        new_points[1, :] = 1.0 - points[0, :] - points[1, :]", "        new_points[0, :] = points[1, :]\n        new_points[1, :] = 1.0 - points[0, :] - points[1, :]", 0, ["C01", "C03", "C12"]),
    ("duffy_weight_region", "bempp_cl/api/integration/duffy_galerkin.py", "                points_trial[1, index] = xsi * eta1 * eta2 * (1 - eta3)\n                weights[index] = weight * eta2", "                points_trial[1, index] = xsi * eta1 * eta2 * (1 - eta3)\n                weights[index] = weight", 0, ["C12", "C01"]),
    ("duffy_point_region", "bempp_cl/api/integration/duffy_galerkin.py", "points_test[1, index] = xsi * (eta1 - eta12 + eta123)", "points_test[1, index] = xsi * (eta1 - eta12 - eta123)", 0, ["C12", "C01"]),
    # ---- tables
    ("triangle_weight_digit", "bempp_cl/api/integration/triangle_gauss.py", "highest_order = 20", "highest_order = 20\nweights_patch = True", 0, []),
    ("gauss_guard_range", "bempp_cl/api/integration/gauss.py", "if order < 1 or order > 30:", "if order < 0 or order > 30:", 0, ["C12"]),
    ("triangle_address_formula", "bempp_cl/api/integration/triangle_gauss.py", "address = points_address[npoints - 1]", "address = points_address[npoints]", 0, ["C12"]),
    ("triangle_weight_scale", "bempp_cl/api/integration/triangle_gauss.py", "return (points, 0.5 * weights[address : address + npoints])", "return (points, weights[address : address + npoints])", 0, ["C12"]),
    ("rwg_bary_coeff", "bempp_cl/api/space/maxwell_spaces.py", "                [0, 1.0 / 3, -1.0 / 6],\n                [0, 0, 1.0 / 6],\n                [0, 0, 1.0 / 6],\n                [1.0 / 3, 0, -1.0 / 6],\n            ]\n        ),\n        _np.array(\n            [\n                [0, 1.0 / 3, -1.0 / 6],", "                [0, 1.0 / 3, -1.0 / 6],\n                [0, 0, 1.0 / 6],\n                [0, 0, -1.0 / 6],\n                [1.0 / 3, 0, -1.0 / 6],\n            ]\n        ),\n        _np.array(\n            [\n                [0, 1.0 / 3, -1.0 / 6],", 0, ["C10"]),
    ("p1_place_by_element_number", "bempp_cl/api/space/scalar_spaces.py", "bary_elements = _np.arange(6) + 6 * index", "bary_elements = _np.arange(6) + 6 * elem_index", 0, ["C10"]),
    ("rwg_place_unscaled", "bempp_cl/api/space/maxwell_spaces.py", "dof_coeffs = bary_coeffs * outer_edges[local_dof] / dof_mult", "dof_coeffs = bary_coeffs / dof_mult", 0, ["C10"]),
    ("compat_partial_conversion", "bempp_cl/api/space/space.py", "converted = [space.barycentric_representation() for space in args]", "converted = [space.barycentric_representation() if space.is_barycentric else space for space in args]", 0, ["C10"]),
    ("bary_p1_wrong_gradient", "bempp_cl/api/space/scalar_spaces.py", "        .set_numba_surface_gradient(_numba_p1_surface_gradient)\n        .build()\n    )\n\n\n@_numba.njit(cache=True)\ndef generate_p1_map", "        .set_numba_surface_gradient(_numba_p0_surface_gradient)\n        .build()\n    )\n\n\n@_numba.njit(cache=True)\ndef generate_p1_map", 0, ["C10"]),
    ("bary_p0_tile_normals", "bempp_cl/api/space/scalar_spaces.py", "normal_multipliers = _np.repeat(coarse_space.normal_multipliers, 6)", "normal_multipliers = _np.tile(coarse_space.normal_multipliers, 6)", 0, ["C10"]),
    ("dual0_without_normal_multipliers", "bempp_cl/api/space/scalar_dual_spaces.py", "        .set_normal_multipliers(_np.repeat(coarse_space.normal_multipliers, 6))\n        .set_order(0)\n", "        .set_order(0)\n", 0, ["C10"]),
    ("bary_rwg_support_interleaved", "bempp_cl/api/space/maxwell_spaces.py", "    bary_support_elements = 6 * _np.repeat(coarse_space.support_elements, 6) + _np.tile(\n        _np.arange(6), number_of_support_elements\n    )", "    bary_support_elements = 6 * _np.tile(coarse_space.support_elements, 6) + _np.repeat(\n        _np.arange(6), number_of_support_elements\n    )", 0, ["C10"]),
    ("multitrace_identity_drops_parameters", "bempp_cl/api/operators/boundary/sparse.py", "blocked_operator[1, 1] = identity(domain1, range1, dual_to_range1, parameters, device_interface, precision)", "blocked_operator[1, 1] = identity(domain1, range1, dual_to_range1)", 0, ["C18"]),
    ("bc_ref_cell_offset", "bempp_cl/api/space/maxwell_spaces.py", "bary_upper_plus = 6 * upper + 2 * local_vertex1 + 1", "bary_upper_plus = 6 * upper + 2 * local_vertex1 - 1", 0, ["C10"]),
    ("bc_ref_edge_local_dof", "bempp_cl/api/grid/grid.py", "bary_dofs.append(local2global[bary_upper_plus, 2])", "bary_dofs.append(local2global[bary_upper_plus, 1])", 0, ["C10"]),
    ("bc_ref_edge_sign", "bempp_cl/api/grid/grid.py", "    values.append(-1.0 / (2 * edge_length_lower))\n    values.append(1.0 / (2 * edge_length_lower))", "    values.append(1.0 / (2 * edge_length_lower))\n    values.append(1.0 / (2 * edge_length_lower))", 0, ["C10"]),
    ("bc_ref_edge_length_of_other_edge", "bempp_cl/api/grid/grid.py", "edge_length_upper = edge_lengths[bary_grid.data().element_edges[2, bary_upper_minus]]", "edge_length_upper = edge_lengths[bary_grid.data().element_edges[0, bary_upper_minus]]", 0, ["C10"]),
    ("dual0_pairing", "bempp_cl/api/space/scalar_dual_spaces.py", "_bary_dofs.append(6 * face_n + (2 * vertex - 1) % 6)", "_bary_dofs.append(6 * face_n + (2 * vertex + 1) % 6)", 0, ["C10"]),
    ("dual1_edge_list", "bempp_cl/api/space/scalar_dual_spaces.py", "enumerate([[1, 5], [13, 17], [7, 11]])", "enumerate([[1, 5], [7, 11], [13, 17]])", 0, ["C10"]),
    ("bary_connectivity", "bempp_cl/api/grid/grid.py", "        new_elements[1, 6 * index + 2] = local_vertex_ids[2]", "        new_elements[1, 6 * index + 2] = local_vertex_ids[1]", 0, ["C10", "C11"]),
    ("refine_orientation", "bempp_cl/api/grid/grid.py", "new_elements[:, 4 * index + 3] = [vertex01, vertex12, vertex20]", "new_elements[:, 4 * index + 3] = [vertex01, vertex20, vertex12]", 0, ["C11", "C04"]),
    ("griddata_swapped_arguments", "bempp_cl/api/grid/grid.py", "            self._diameters,\n            self._integration_elements,\n            self._centroids,\n            self._domain_indices,\n            self._vertex_on_boundary,\n            self._element_neighbors.indices,\n            self._element_neighbors.indexptr,\n        )\n\n        self._grid_data_single", "            self._integration_elements,\n            self._diameters,\n            self._centroids,\n            self._domain_indices,\n            self._vertex_on_boundary,\n            self._element_neighbors.indices,\n            self._element_neighbors.indexptr,\n        )\n\n        self._grid_data_single", 0, ["C11"]),
    ("griddata_single_precision_jacobian", "bempp_cl/api/grid/grid.py", "            self._jacobian_inverse_transposed.astype(\"float32\"),", "            self._jacobians.astype(\"float32\"),", 0, ["C11"]),
    ("incidence_ravel_order", "bempp_cl/api/grid/grid.py", "vertex_indices = _np.ravel(elements, order=\"F\")", "vertex_indices = _np.ravel(elements, order=\"C\")", 0, ["C11"]),
    ("edge_neighbours_wrong_value", "bempp_cl/api/grid/grid.py", "edge_neighbors[self.element_edges[local_index, element_index]].append(element_index)", "edge_neighbors[self.element_edges[local_index, element_index]].append(local_index)", 0, ["C11"]),
    ("element_neighbours_of_vertex_matrix", "bempp_cl/api/grid/grid.py", "self._element_neighbors = IndexList(elem_to_elem_matrix.indices, elem_to_elem_matrix.indptr)", "self._element_neighbors = IndexList(self._element_to_vertex_matrix.indices, self._element_to_vertex_matrix.indptr)", 0, ["C11"]),
    ("edge_enum_not_registered", "bempp_cl/api/grid/grid.py", "                edge_tuple_to_index[edge_tuple] = edge_index\n", "", 0, ["C11"]),
    ("edge_enum_counter_first", "bempp_cl/api/grid/grid.py", "                edge_index = number_of_edges\n                edge_tuple_to_index[edge_tuple] = edge_index\n                edges.append(edge_tuple)\n                number_of_edges += 1\n", "                number_of_edges += 1\n                edge_index = number_of_edges\n                edge_tuple_to_index[edge_tuple] = edge_index\n                edges.append(edge_tuple)\n", 0, ["C11"]),
    ("segments_grid_unmapped_elements", "bempp_cl/api/grid/grid.py", "new_elements = new_vertex_map[new_elements.ravel()].reshape(3, -1)", "new_elements = new_vertex_map[new_elements.ravel()].reshape(-1, 3).T", 0, ["C11"]),
    ("segments_grid_domain_indices", "bempp_cl/api/grid/grid.py", "new_domain_indices = grid.domain_indices[element_in_new_grid]", "new_domain_indices = grid.domain_indices[: new_elements.shape[1]]", 0, ["C11"]),
    ("geom_normal_left_handed", "bempp_cl/api/grid/grid.py", "normal_directions = _np.cross(jacobians[::2], jacobians[1::2], axis=1)", "normal_directions = _np.cross(jacobians[1::2], jacobians[::2], axis=1)", 0, ["C11"]),
    ("geom_volume_factor", "bempp_cl/api/grid/grid.py", "volumes = 0.5 * normal_direction_norms", "volumes = normal_direction_norms", 0, ["C11"]),
    ("geom_diameter_formula", "bempp_cl/api/grid/grid.py", "diameters = jac_vector_norms[::2] * jac_vector_norms[1::2] * diff_norms / normal_direction_norms", "diameters = jac_vector_norms[::2] * jac_vector_norms[1::2] / normal_direction_norms", 0, ["C11"]),
    ("geom_jacobian_columns_swapped", "bempp_cl/api/grid/grid.py", "_np.tile([1, 2], self.number_of_elements)", "_np.tile([2, 1], self.number_of_elements)", 0, ["C11"]),
    ("geom_inverse_not_inverted", "bempp_cl/api/grid/grid.py", "self.jacobians[index].dot(jac_transpose_jac_inv[index])", "self.jacobians[index].dot(jac_transpose_jac[index])", 0, ["C11"]),
    ("refine_midpoint_endpoints", "bempp_cl/api/grid/grid.py", "            self.vertices[:, self.edges[0, :]] + self.vertices[:, self.edges[1, :]]\n", "            self.vertices[:, self.edges[0, :]] + self.vertices[:, self.edges[0, :]]\n", 0, ["C11"]),
    ("union_even_permutation", "bempp_cl/api/grid/grid.py", "current_elements = grid.elements[[0, 2, 1], :]", "current_elements = grid.elements[[1, 2, 0], :]", 0, ["C11"]),
    ("union_offset_advanced_early", "bempp_cl/api/grid/grid.py", "        elements[:, element_offset : element_offset + nelements] = current_elements + vertex_offset\n        all_domain_indices[element_offset : element_offset + nelements] = domain_indices[index]\n        vertex_offset += nvertices\n", "        vertex_offset += nvertices\n        elements[:, element_offset : element_offset + nelements] = current_elements + vertex_offset\n        all_domain_indices[element_offset : element_offset + nelements] = domain_indices[index]\n", 0, ["C11"]),
    ("union_wrong_shift", "bempp_cl/api/grid/grid.py", "= current_elements + vertex_offset", "= current_elements + element_offset", 0, ["C11"]),
    ("union_domain_block", "bempp_cl/api/grid/grid.py", "all_domain_indices[element_offset : element_offset + nelements] = domain_indices[index]", "all_domain_indices[vertex_offset : vertex_offset + nelements] = domain_indices[index]", 0, ["C11"]),
    ("adj_layout_pair_swapped", "bempp_cl/api/grid/grid.py", "        adjacency[0, index] = elem0\n        adjacency[1, index] = elem1", "        adjacency[0, index] = elem1\n        adjacency[1, index] = elem0", 0, ["C11"]),
    ("vertex_adj_swap_ij", "bempp_cl/api/grid/grid.py", "adjacency[:, index] = (test_index, trial_index, i, j)", "adjacency[:, index] = (test_index, trial_index, j, i)", 0, ["C11"]),
    ("two_common_same_pair", "bempp_cl/api/grid/grid.py", "offset = index_pairs[0, 0] + 1  # Next", "offset = index_pairs[0, 0]  # Next", 0, ["C11"]),
    ("boundary_two_neighbours", "bempp_cl/api/grid/grid.py", "arr1 = edge_to_edge.diagonal() == 1", "arr1 = edge_to_edge.diagonal() == 2", 0, ["C11"]),
    ("boundary_one_vertex", "bempp_cl/api/grid/grid.py", "arr0[self.edges[:, boundary_edge_index]] = True", "arr0[self.edges[0, boundary_edge_index]] = True", 0, ["C11"]),
    ("element_filter_same_array", "bempp_cl/api/grid/grid.py", "return (elements1[filtered_indices], elements2[filtered_indices])", "return (elements1[filtered_indices], elements1[filtered_indices])", 0, ["C11"]),
    ("edges_id_constant", "bempp_cl/api/grid/grid.py", "EDGES_ID = 2", "EDGES_ID = 3", 0, ["C11"]),
    # ---- OpenCL
    ("cl_laplace_dl_vec8", KH, "    *result = M_INV_4PI * (diff[0] * trialNormal[0] + diff[1] * trialNormal[1]", "    *result = M_INV_4PI * (diff[0] * trialNormal[1] + diff[1] * trialNormal[1]", 2, ["C20"]),
    ("cl_rwg_shapeset", "bempp_cl/core/sources/include/rwg0_shapeset.h", "result[2 * 1 + 0] = localPoint->x - 1;", "result[2 * 1 + 0] = localPoint->x;", 0, ["C20"]),
    ("cl_const_digit", "bempp_cl/core/sources/include/bempp_base_types.h", "#define M_INV_4PI 0.07957747154594767", "#define M_INV_4PI 0.07957747154594676", 0, ["C20"]),
    # ---- spaces / sparse / grid functions
    ("mass_matrix_roles_swapped", "bempp_cl/api/utils/helpers.py", "return identity(domain, domain, dual_to_range).weak_form()", "return identity(dual_to_range, domain, domain).weak_form()", 0, ["C13"]),
    ("inverse_mass_of_other_pair", "bempp_cl/api/utils/helpers.py", "return InverseSparseDiscreteBoundaryOperator(get_mass_matrix(domain, dual_to_range))", "return InverseSparseDiscreteBoundaryOperator(get_mass_matrix(dual_to_range, domain))", 0, ["C13"]),
    ("pseudo_inverse_thin_missing_adjoint", "bempp_cl/api/assembly/discrete_boundary_operator.py", "self._solve_fun = lambda x: solver.solve(mat_hermitian * x)", "self._solve_fun = lambda x: solver.solve(x)", 0, ["C13"]),
    ("pseudo_inverse_thick_gram", "bempp_cl/api/assembly/discrete_boundary_operator.py", "                solver = solver_interface((mat * mat_hermitian).tocsc())", "                solver = solver_interface((mat_hermitian * mat).tocsc())", 0, ["C13"]),
    ("sparse_transform_wrong_side", "bempp_cl/core/sparse_assembler.py", "mat = dual_to_range.dof_transformation.T @ mat", "mat = mat @ dual_to_range.dof_transformation.T", 0, ["C13"]),
    ("sparse_transform_not_transposed", "bempp_cl/core/sparse_assembler.py", "mat = dual_to_range.dof_transformation.T @ mat", "mat = dual_to_range.dof_transformation @ mat", 0, ["C13"]),
    ("sparse_scatter_swap", "bempp_cl/core/sparse_assembler.py", "global_rows = test_local2global[rows]\n        global_cols = trial_local2global[cols]", "global_rows = test_local2global[cols]\n        global_cols = trial_local2global[rows]", 0, ["C13", "C04"]),
    ("sparse_support_one_sided", "bempp_cl/core/sparse_assembler.py", "support = domain.support * dual_to_range.support", "support = domain.support", 0, ["C13", "C04"]),
    ("l2_kernel_trial_index", NK, "* local_trial_fun_values[dim_index, trial_index, quad_index]\n                        * quad_weights[quad_index]\n                        * integration_element\n                    )\n\n\n@_numba.jit(nopython=True, parallel=False, error_model=\"numpy\", fastmath=True, boundscheck=False)\ndef _vector_grad_product_kernel", "* local_trial_fun_values[dim_index, test_index, quad_index]\n                        * quad_weights[quad_index]\n                        * integration_element\n                    )\n\n\n@_numba.jit(nopython=True, parallel=False, error_model=\"numpy\", fastmath=True, boundscheck=False)\ndef _vector_grad_product_kernel", 0, ["C13"]),
    ("gf_evaluate_wrong_dofs", "bempp_cl/api/assembly/grid_function.py", "return _np.tensordot(element_values, self.grid_coefficients[global_dofs], axes=([1], [0]))", "return _np.tensordot(element_values, self.coefficients[global_dofs], axes=([1], [0]))", 0, ["C13"]),
    ("point_map_slots_by_element", "bempp_cl/api/space/space.py", "data[elem_index * nlocal : (1 + elem_index) * nlocal] = basis_values.ravel()", "data[elem * nlocal : (1 + elem) * nlocal] = basis_values.ravel()", 0, ["C13", "C17"]),
    ("efield_potential_basis_by_element", "bempp_cl/core/numba_kernels.py", "basis_functions[element_index, fun_index, :, quad_point_index]", "basis_functions[element, fun_index, :, quad_point_index]", 0, ["C13", "C08"]),
    ("scalar_proj_wrong_vertex", "bempp_cl/api/assembly/grid_function.py", "+ points[1] * grid_data.vertices[j, grid_data.elements[2, index]]", "+ points[1] * grid_data.vertices[j, grid_data.elements[1, index]]", 0, ["C13"]),
    ("scalar_proj_normal_unflipped", "bempp_cl/api/assembly/grid_function.py", "                grid_data.normals[index] * normal_multipliers[index],\n", "                grid_data.normals[index],\n", 0, ["C13"]),
    ("vertex_average_unweighted", "bempp_cl/api/assembly/grid_function.py", "values[:, index] += local_values[:, i] * element_area", "values[:, index] += local_values[:, i]", 0, ["C13"]),
    ("centres_wrong_reference_point", "bempp_cl/api/assembly/grid_function.py", "local_coordinates = _np.array([[1.0 / 3], [1.0 / 3]])", "local_coordinates = _np.array([[0.5], [0.5]])", 0, ["C13"]),
    ("projection_position_index", "bempp_cl/api/assembly/grid_function.py", "* function_data[:, index * npoints : (1 + index) * npoints]", "* function_data[:, element * npoints : (1 + element) * npoints]", 0, ["C13"]),
    ("map_to_full_grid_rows", "bempp_cl/api/space/space.py", "nshape_fun * _np.repeat(self._support_elements, nshape_fun)\n                    + _np.tile(_np.arange(nshape_fun), self._number_of_support_elements),", "nshape_fun * _np.repeat(_np.arange(self._number_of_support_elements), nshape_fun)\n                    + _np.tile(_np.arange(nshape_fun), self._number_of_support_elements),", 0, ["C02", "C04", "C09"]),
    ("rwg_sign_rule", "bempp_cl/api/space/maxwell_spaces.py", "1 if element_index == min(supported_neighbors) else -1", "1 if element_index == min(supported_neighbors) else 1", 0, ["C03", "C09"]),
    ("snc_ignores_swapped_normals", "bempp_cl/api/space/maxwell_spaces.py", "support, normal_multipliers = _process_segments(grid, support_elements, segments, swapped_normals)", "support, normal_multipliers = _process_segments(grid, support_elements, segments, None)", 1, ["C09"]),
    ("rbc_with_rwg_evaluator", "bempp_cl/api/space/maxwell_spaces.py", ".set_numba_evaluator(_numba_snc0_evaluate)", ".set_numba_evaluator(_numba_rwg0_evaluate)", 2, ["C09"]),
    ("p1_space_multipliers_from_support_slot", "bempp_cl/api/space/scalar_spaces.py", "        .set_local_multipliers(local_multipliers)\n        .set_barycentric_representation(p1_barycentric_continuous_function_space)", "        .set_local_multipliers(support)\n        .set_barycentric_representation(p1_barycentric_continuous_function_space)", 0, ["C09"]),
    ("p1_neighbour_vertex_position", "bempp_cl/api/space/scalar_spaces.py", "other_local_index = find_index(grid_data.elements[:, en], vertex)", "other_local_index = find_index(grid_data.elements[:, element_index], vertex)", 0, ["C09"]),
    ("rwg_boundary_dof_counter_shared", "bempp_cl/api/space/maxwell_spaces.py", "                        edge_dofs[edge_index] = dof_count\n                        dof_count += 1\n                    has_dof = True\n                    if not truncate_at_segment_edge:", "                        edge_dofs[edge_index] = dof_count\n                    has_dof = True\n                    if not truncate_at_segment_edge:", 0, ["C09"]),
    ("rwg_map_wrong_edge", "bempp_cl/api/space/maxwell_spaces.py", "            edge_index = element_edges[local_index, element_index]\n            if edge_dofs[edge_index] != -1:\n                dofmap[local_index] = edge_dofs[edge_index]", "            edge_index = element_edges[local_index, element_index]\n            if edge_dofs[edge_index] != -1:\n                dofmap[local_index] = edge_dofs[element_edges[(local_index + 1) % 3, element_index]]", 0, ["C09"]),
    ("dispatch_wrong_constructor", "bempp_cl/api/space/space.py", "            space_f = scalar_dual_spaces.dual1_function_space", "            space_f = scalar_dual_spaces.dual0_function_space", 0, ["C09"]),
    ("dispatch_unknown_not_rejected", "bempp_cl/api/space/space.py", "    if space_f is None:\n        raise ValueError(\"Requested space not implemented.\")", "    if space_f is None:\n        space_f = scalar_spaces.p0_discontinuous_function_space", 0, ["C09"]),
    ("normal_mult_both_plus", "bempp_cl/api/space/space.py", "            normal_multipliers[element_index] = -1\n", "            normal_multipliers[element_index] = 1\n", 0, ["C03", "C09"]),
    ("normal_mult_wrong_set", "bempp_cl/api/space/space.py", "        if grid.domain_indices[element_index] in swapped_normals:\n            normal_multipliers", "        if element_index in swapped_normals:\n            normal_multipliers", 0, ["C03", "C09"]),
    ("snc_evaluate_cross_order", "bempp_cl/api/space/maxwell_spaces.py", "result[0, :, :] = normal[1] * tmp[2, :, :] - normal[2] * tmp[1, :, :]", "result[0, :, :] = normal[2] * tmp[1, :, :] - normal[1] * tmp[2, :, :]", 0, ["C09"]),
    ("colour_map_first_dof_only", "bempp_cl/api/space/space.py", "            for dof in global_dofs:\n                for elem, _ in self.global2local[dof]:", "            for dof in global_dofs[:1]:\n                for elem, _ in self.global2local[dof]:", 0, ["C16"]),
    ("rwg_alias_fixed_index", "bempp_cl/api/space/maxwell_spaces.py", "dofmap[local_index] = dofmap[first_nonzero]", "dofmap[local_index] = dofmap[0]", 0, ["C16"]),
    ("sort_colour_ptr_before_advance", "bempp_cl/api/space/space.py", "            count += colors_length\n            indexptr[index + 1] = count\n", "            indexptr[index + 1] = count\n            count += colors_length\n", 0, ["C16"]),
    ("sort_colour_wrong_members", "bempp_cl/api/space/space.py", "colors = _np.where(self.color_map == color)[0]", "colors = _np.where(self.color_map >= color)[0]", 0, ["C16"]),
    ("p1_alias_constant", "bempp_cl/api/space/scalar_spaces.py", "local2global_final[element_index, local_index] = max_dof", "local2global_final[element_index, local_index] = 0", 0, ["C16", "C09"]),
    # ---- algebra / solvers / io / state
    ("product_operand_order", "bempp_cl/api/assembly/boundary_operator.py", "return self._op1.weak_form() * self._op2.strong_form()", "return self._op2.weak_form() * self._op1.strong_form()", 0, ["C14"]),
    ("boundary_sub_is_add", "bempp_cl/api/assembly/boundary_operator.py", "        return self.__add__(-other)", "        return self.__add__(other)", 0, ["C14"]),
    ("discrete_neg_positive", "bempp_cl/api/assembly/discrete_boundary_operator.py", "return _ScaledDiscreteOperator(self, -1)", "return _ScaledDiscreteOperator(self, 1)", 0, ["C14"]),
    ("blocked_mul_operand_order", "bempp_cl/api/assembly/blocked_operator.py", "return ProductBlockedOperator(self, other)", "return ProductBlockedOperator(other, self)", 0, ["C14"]),
    ("p1_grid_boundary_forgotten", "bempp_cl/api/space/scalar_spaces.py", "node_is_interior = len(non_support_neighbors) == 0 and not grid_data.vertex_on_boundary[vertex]", "node_is_interior = len(non_support_neighbors) == 0", 0, ["C09"]),
    ("p1_extension_ignores_truncate", "bempp_cl/api/space/scalar_spaces.py", "if len(non_support_neighbors) > 0 and not truncate_at_segment_edge and include_boundary_dofs:", "if len(non_support_neighbors) > 0 and include_boundary_dofs:", 0, ["C09"]),
    ("p1_alias_guard_flip", "bempp_cl/api/space/scalar_spaces.py", "                if local2global[element_index, local_index] == -1:\n                    local2global_final[element_index, local_index] = max_dof", "                if local2global[element_index, local_index] != -1:\n                    local2global_final[element_index, local_index] = max_dof", 0, ["C09"]),
    ("p1_slot_sentinel_zero", "bempp_cl/api/space/scalar_spaces.py", "local2global = -_np.ones((number_of_elements, 3), dtype=_np.int32)", "local2global = _np.zeros((number_of_elements, 3), dtype=_np.int32)", 0, ["C09"]),
    ("p1_neighbour_slot_own_index", "bempp_cl/api/space/scalar_spaces.py", "                    local2global[en, other_local_index] = vertex", "                    local2global[en, local_index] = vertex", 0, ["C09"]),
    ("rwg_edge_table_sentinel", "bempp_cl/api/space/maxwell_spaces.py", "    edge_dofs = -_np.ones(number_of_edges, dtype=_np.int32)", "    edge_dofs = _np.ones(number_of_edges, dtype=_np.int32)", 0, ["C09"]),
    ("rwg_two_neighbours_flip", "bempp_cl/api/space/maxwell_spaces.py", "                if len(supported_neighbors) == 2:", "                if len(supported_neighbors) != 2:", 0, ["C09"]),
    ("rwg_boundary_dofs_ignored", "bempp_cl/api/space/maxwell_spaces.py", "                if len(supported_neighbors) == 1 and include_boundary_dofs:", "                if len(supported_neighbors) == 1:", 0, ["C09"]),
    ("rwg_truncate_flag_inverted", "bempp_cl/api/space/maxwell_spaces.py", "                    if not truncate_at_segment_edge:", "                    if truncate_at_segment_edge:", 0, ["C09"]),
    ("rwg_alias_guard_flip", "bempp_cl/api/space/maxwell_spaces.py", "            if local_multipliers[element_index, local_index] == 0:\n                dofmap[local_index] = dofmap[first_nonzero]", "            if local_multipliers[element_index, local_index] != 0:\n                dofmap[local_index] = dofmap[first_nonzero]", 0, ["C09"]),
    ("rwg_numbering_edge_index_swapped", "bempp_cl/api/space/maxwell_spaces.py", "            edge_index = element_edges[local_index, element]\n            if edge_dofs[edge_index] != -1:\n                has_dof = True", "            edge_index = element_edges[element, local_index]\n            if edge_dofs[edge_index] != -1:\n                has_dof = True", 0, ["C09"]),
    ("sum_guard_polarity", "bempp_cl/api/assembly/boundary_operator.py", "            not op1.domain.is_compatible(op2.domain)", "            op1.domain.is_compatible(op2.domain)", 0, ["C14"]),
    ("blocked_sum_guard_eq", "bempp_cl/api/assembly/blocked_operator.py", "            op1.domain_spaces != op2.domain_spaces", "            op1.domain_spaces == op2.domain_spaces", 0, ["C14"]),
    ("discrete_product_guard_eq", "bempp_cl/api/assembly/discrete_boundary_operator.py", "        if op1.shape[1] != op2.shape[0]:", "        if op1.shape[1] == op2.shape[0]:", 0, ["C14"]),
    ("dense_add_minus", "bempp_cl/api/assembly/discrete_boundary_operator.py", "return DenseDiscreteBoundaryOperator(self.to_dense() + other.to_dense())", "return DenseDiscreteBoundaryOperator(self.to_dense() - other.to_dense())", 0, ["C14"]),
    ("diagonal_neg_positive", "bempp_cl/api/assembly/discrete_boundary_operator.py", "return DiagonalOperator(-self.get_diagonal())", "return DiagonalOperator(self.get_diagonal())", 0, ["C14"]),
    ("generic_is_complex_flip", "bempp_cl/api/assembly/discrete_boundary_operator.py", "self._is_complex = self.dtype == \"complex128\" or self.dtype == \"complex64\"", "self._is_complex = self.dtype != \"complex128\" or self.dtype == \"complex64\"", 0, ["C14"]),
    ("rank_one_dtype_flip", "bempp_cl/api/assembly/discrete_boundary_operator.py", "        if row.dtype == \"complex128\" or column.dtype == \"complex128\":", "        if row.dtype == \"complex128\" and column.dtype == \"complex128\":", 0, ["C14"]),
    ("potential_compat_points_plus", "bempp_cl/api/assembly/potential_operator.py", "np.linalg.norm(self.evaluation_points - other.evaluation_points, ord=np.inf) == 0", "np.linalg.norm(self.evaluation_points + other.evaluation_points, ord=np.inf) == 0", 0, ["C14"]),
    ("potential_compat_count_ne", "bempp_cl/api/assembly/potential_operator.py", "            self.component_count == other.component_count", "            self.component_count != other.component_count", 0, ["C14"]),
    ("is_compatible_negated", "bempp_cl/api/space/space.py", "        return self == other", "        return self != other", 0, ["C14"]),
    ("compat_ids_negated", "bempp_cl/api/space/space.py", "    if space1.id == space2.id:", "    if space1.id != space2.id:", 0, ["C14"]),
    ("dof_count_minus", "bempp_cl/api/space/space.py", "    global_dof_count = 1 + _np.max(local2global_map)", "    global_dof_count = 1 - _np.max(local2global_map)", 0, ["C09"]),
    ("grid_dof_count_no_plus_one", "bempp_cl/api/space/space.py", "        number_of_grid_dofs = 1 + _np.max(self._local2global_map)", "        number_of_grid_dofs = _np.max(self._local2global_map)", 0, ["C09"]),
    ("colour_map_positive_sentinel", "bempp_cl/api/space/space.py", "self._color_map = -_np.ones(self.grid.number_of_elements, dtype=_np.int32)", "self._color_map = _np.ones(self.grid.number_of_elements, dtype=_np.int32)", 0, ["C16"]),
    ("sparse_grid_guard_eq", "bempp_cl/core/sparse_assembler.py", "        if domain.grid != dual_to_range.grid:", "        if domain.grid == dual_to_range.grid:", 0, ["C13"]),
    ("bary_edge_memo_sentinel", "bempp_cl/api/grid/grid.py", "    edge_to_vertex = -_np.ones(number_of_edges)", "    edge_to_vertex = _np.ones(number_of_edges)", 0, ["C11", "C10"]),
    ("bary_memo_test_always_true", "bempp_cl/api/grid/grid.py", "            if edge_to_vertex[edge_index] > -1:", "            if edge_to_vertex[edge_index] >= -1:", 0, ["C11", "C10"]),
    ("bary_barycentre_factor_half", "bempp_cl/api/grid/grid.py", "new_vertices[:, number_of_vertices] = 1.0 / 3 * _np.sum(vertices[:, elements[:, index]], axis=1)", "new_vertices[:, number_of_vertices] = 1.0 / 2 * _np.sum(vertices[:, elements[:, index]], axis=1)", 0, ["C11", "C10"]),
    ("bary_vertex_table_too_small", "bempp_cl/api/grid/grid.py", "    new_number_of_vertices = number_of_vertices + number_of_elements + number_of_edges", "    new_number_of_vertices = number_of_vertices + number_of_elements", 0, ["C11"]),
    ("shared_edge_one_row_swapped", "bempp_cl/api/grid/grid.py", "        for i in range(2):\n            tmp = index_pairs[i, 0]\n            index_pairs[i, 0] = index_pairs[i, 1]\n            index_pairs[i, 1] = tmp", "        for i in range(1, 2):\n            tmp = index_pairs[i, 0]\n            index_pairs[i, 0] = index_pairs[i, 1]\n            index_pairs[i, 1] = tmp", 0, ["C11", "C03"]),
    ("hyp_guard_trial_dropped", "bempp_cl/api/operators/boundary/laplace.py", "    if dual_to_range.shapeset.identifier != \"p1_discontinuous\":", "    if domain.shapeset.identifier != \"p1_discontinuous\":", 0, ["C06"]),
    ("efield_guard_accepts_bc", "bempp_cl/api/operators/boundary/maxwell.py", "    if domain.identifier != \"rwg0\":", "    if domain.identifier not in (\"rwg0\", \"snc0\"):", 0, ["C06"]),
    ("maxwell_pot_guard_removed", "bempp_cl/api/operators/potential/maxwell.py", "    if space.identifier != \"rwg0\":", "    if space is None:", 1, ["C08"]),
    ("product_shape_swapped", "bempp_cl/api/assembly/discrete_boundary_operator.py", "super().__init__(dtype, (op1.shape[0], op2.shape[1]))", "super().__init__(dtype, (op2.shape[0], op1.shape[1]))", 0, ["C14"]),
    ("scaled_dtype_ignores_alpha", "bempp_cl/api/assembly/discrete_boundary_operator.py", "dtype = _np.result_type(op.dtype, type(alpha))", "dtype = op.dtype", 0, ["C14"]),
    ("hash_drops_multipliers", "bempp_cl/api/space/space.py", "        md5_gen.update(self.local_multipliers.tobytes())\n", "", 0, ["C14"]),
    ("hash_without_grid", "bempp_cl/api/space/space.py", "return self.identifier + \"_\" + self.grid_id + \"_\" + md5_gen.hexdigest()", "return self.identifier + \"_\" + md5_gen.hexdigest()", 0, ["C14"]),
    ("gf_add_projection_space", "bempp_cl/api/assembly/grid_function.py", "                    projections=self.projections() + other.projections(),\n                    dual_space=self.dual_space,", "                    projections=self.projections() + other.projections(),\n                    dual_space=self.space,", 0, ["C14"]),
    ("gf_add_drops_other", "bempp_cl/api/assembly/grid_function.py", "return GridFunction(self.space, coefficients=self.coefficients + other.coefficients)", "return GridFunction(self.space, coefficients=self.coefficients + self.coefficients)", 0, ["C14"]),
    ("gf_mul_dual_coefficients", "bempp_cl/api/assembly/grid_function.py", "                    projections=alpha * self._projections,\n                    dual_space=self.dual_space,", "                    projections=alpha * self.coefficients,\n                    dual_space=self.dual_space,", 0, ["C14"]),
    ("gf_div_inverted", "bempp_cl/api/assembly/grid_function.py", "return self * (1.0 / alpha)", "return self * (alpha / 1.0)", 0, ["C14"]),
    ("blocked_product_order", "bempp_cl/api/assembly/blocked_operator.py", "return self._op1.weak_form() * self._op2.strong_form()", "return self._op2.weak_form() * self._op1.strong_form()", 0, ["C14"]),
    ("blocked_product_domain", "bempp_cl/api/assembly/blocked_operator.py", "return tuple(self._op2.domain_spaces)", "return tuple(self._op1.domain_spaces)", 0, ["C14"]),
    ("blocked_strong_form_spaces", "bempp_cl/api/assembly/blocked_operator.py", "                    self.range_spaces[index], self.dual_to_range_spaces[index]\n", "                    self.dual_to_range_spaces[index], self.range_spaces[index]\n", 0, ["C14"]),
    ("blocked_matvec_column_offset", "bempp_cl/api/assembly/blocked_operator.py", "                col_dim += self._cols[j]\n", "                col_dim += self._rows[i]\n", 0, ["C14"]),
    ("blocked_matvec_complex_split", "bempp_cl/api/assembly/blocked_operator.py", "                    local_res += self._operators[i, j].dot(_np.real(local_x)) + 1j * self._operators[i, j].dot(\n                        _np.imag(local_x)\n                    )", "                    local_res += self._operators[i, j].dot(_np.real(local_x)) + self._operators[i, j].dot(\n                        _np.imag(local_x)\n                    )", 0, ["C14"]),
    ("blocked_sum_guard", "bempp_cl/api/assembly/blocked_operator.py", "            or op1.range_spaces != op2.range_spaces\n", "", 0, ["C14"]),
    ("sum_guard_dropped_pair", "bempp_cl/api/assembly/boundary_operator.py", "            or not op1.range.is_compatible(op2.range)\n", "", 0, ["C14"]),
    ("discrete_product_matvec", "bempp_cl/api/assembly/discrete_boundary_operator.py", "return self._op1 @ (self._op2 @ x)", "return self._op2 @ (self._op1 @ x)", 0, ["C14"]),
    ("scaled_to_sparse_alpha", "bempp_cl/api/assembly/discrete_boundary_operator.py", "return self._alpha * self._op.to_sparse()", "return self._op.to_sparse()", 0, ["C14"]),
    ("cg_rhs_strong", "bempp_cl/api/linalg/iterative_solvers.py", "        A_op = A.strong_form()\n        b_vec = b.coefficients\n    else:\n        A_op = A.weak_form()\n        b_vec = b.projections(A.dual_to_range)\n\n    callback = IterationCounter(return_residuals, True, A_op, b_vec)", "        A_op = A.strong_form()\n        b_vec = b.projections(A.dual_to_range)\n    else:\n        A_op = A.weak_form()\n        b_vec = b.projections(A.dual_to_range)\n\n    callback = IterationCounter(return_residuals, True, A_op, b_vec)", 0, ["C15"]),
    ("gmres_result_space", "bempp_cl/api/linalg/iterative_solvers.py", "res_fun = GridFunction(A.domain, coefficients=x.ravel())", "res_fun = GridFunction(A.range, coefficients=x.ravel())", 1, ["C15"]),
    ("gmres_returns_wrong_counter", "bempp_cl/api/linalg/iterative_solvers.py", "        return res_fun, info, callback.residuals, callback.count\n\n    if return_residuals:\n        return res_fun, info, callback.residuals\n\n    if return_iteration_count:\n        return res_fun, info, callback.count\n\n    return res_fun, info\n\n\ndef _gmres_block_op_imp", "        return res_fun, info, callback.residuals, callback.count\n\n    if return_residuals:\n        return res_fun, info, callback.count\n\n    if return_iteration_count:\n        return res_fun, info, callback.count\n\n    return res_fun, info\n\n\ndef _gmres_block_op_imp", 0, ["C15"]),
    ("cg_residual_sign", "bempp_cl/api/linalg/iterative_solvers.py", "res = self._rhs - self._operator * x", "res = self._rhs + self._operator * x", 0, ["C15"]),
    ("gmres_tol_dropped", "bempp_cl/api/linalg/iterative_solvers.py", "x, info = scipy.sparse.linalg.gmres(A_op, b_vec, rtol=tol, restart=restart, maxiter=maxiter, callback=callback)", "x, info = scipy.sparse.linalg.gmres(A_op, b_vec, restart=restart, maxiter=maxiter, callback=callback)", 0, ["C15"]),
    ("lu_factor_path_rhs", "bempp_cl/api/linalg/direct_solvers.py", "        vec = b.projections(A.dual_to_range)\n", "        vec = b.coefficients\n", 0, ["C15"]),
    ("lu_blocked_spaces", "bempp_cl/api/linalg/direct_solvers.py", "return grid_function_list_from_coefficients(sol, A.domain_spaces)", "return grid_function_list_from_coefficients(sol, A.range_spaces)", 0, ["C15"]),
    ("export_points_single", "bempp_cl/api/grid/io.py", "    points = grid.vertices.T\n", "    points = grid.vertices.T.astype(\"float32\")\n", 0, ["C19"]),
    ("export_imag_sign", "bempp_cl/api/grid/io.py", "point_data = {\"real\": _np.real(data), \"imag\": _np.imag(data)}", "point_data = {\"real\": _np.real(data), \"imag\": -_np.imag(data)}", 0, ["C19"]),
    ("export_domain_int8", "bempp_cl/api/grid/io.py", "cell_data[\"gmsh:physical\"] = grid.domain_indices.astype(\"int32\").reshape((1, -1))", "cell_data[\"gmsh:physical\"] = grid.domain_indices.astype(\"int8\").reshape((1, -1))", 0, ["C19"]),
    ("import_elements_uint16", "bempp_cl/api/grid/io.py", "elements = mesh.cells_dict[\"triangle\"].T.astype(\"uint32\")", "elements = mesh.cells_dict[\"triangle\"].T.astype(\"uint16\")", 0, ["C19"]),
    ("export_ascii_ignored", "bempp_cl/api/grid/io.py", "        binary=write_binary,", "        binary=True,", 0, ["C19"]),
    ("export_transform_after_split", "bempp_cl/api/grid/io.py", "                cell_data[\"real\"] = _np.array([_np.real(data)])", "                cell_data[\"real\"] = _np.array([_np.abs(data)])", 0, ["C19"]),
    ("import_domain_all_any", "bempp_cl/api/grid/io.py", "if domain_indices is None or _np.all(domain_indices == 0):", "if domain_indices is None or _np.any(domain_indices == 0):", 0, ["C19"]),
    ("transform_log_abs_no_sqrt", "bempp_cl/api/grid/io.py", "res = _np.log(_np.sqrt(_np.sum(_np.abs(a) ** 2, axis=0, keepdims=True)))", "res = _np.log(_np.sum(_np.abs(a) ** 2, axis=0, keepdims=True))", 0, ["C19"]),
    ("export_element_source", "bempp_cl/api/grid/io.py", "data = _transform_array(grid_function.evaluate_on_element_centers(), transformation).T", "data = _transform_array(grid_function.evaluate_on_vertices(), transformation).T", 0, ["C19"]),
    ("transform_abs_of_sum", "bempp_cl/api/grid/io.py", "res = _np.sum(_np.abs(a) ** 2, axis=0, keepdims=True)", "res = _np.abs(_np.sum(a**2, axis=0, keepdims=True))", 0, ["C19"]),
    ("transform_imag_is_real", "bempp_cl/api/grid/io.py", "        res = _np.imag(a)", "        res = _np.real(a)", 0, ["C19"]),
    ("export_complex_cell_block", "bempp_cl/api/grid/io.py", 'cell_data["imag"] = _np.array([_np.imag(data)])', 'cell_data["imag"] = _np.imag(data)', 0, ["C19"]),
    ("export_physical_tag", "bempp_cl/api/grid/io.py", 'cell_data["gmsh:physical"] = grid.domain_indices.astype("int32").reshape((1, -1))', 'cell_data["gmsh:physical"] = geom_indices.reshape((1, -1))', 0, ["C19"]),
    ("dense_reads_global", "bempp_cl/core/numba_assemblers.py", "    order = parameters.quadrature.regular\n    quad_points, quad_weights = rule(order)\n\n    # Perform Numba assembly always in double precision", "    import bempp_cl.api\n\n    order = bempp_cl.api.GLOBAL_PARAMETERS.quadrature.regular\n    quad_points, quad_weights = rule(order)\n\n    # Perform Numba assembly always in double precision", 0, ["C18", "C01"]),
    ("weak_form_no_memo", "bempp_cl/api/assembly/boundary_operator.py", "        if not self._cached:\n            self._cached = self._assemble()\n\n        return self._cached", "        self._cached = self._assemble()\n\n        return self._cached", 0, ["C18"]),
    ("fmm_near_kernel_gradient_sign", "bempp_cl/api/fmm/helpers.py", "                    -diff[i, j] * m_inv_4pi / (dist[j] * dist[j] * dist[j])", "                    diff[i, j] * m_inv_4pi / (dist[j] * dist[j] * dist[j])", 0, ["C17"]),
    ("fmm_dl_component", "bempp_cl/api/fmm/fmm_assembler.py", "fmm_res2 = fmm_interface.evaluate(source_normals[:, 1] * x_transformed)[:, 2]", "fmm_res2 = fmm_interface.evaluate(source_normals[:, 1] * x_transformed)[:, 1]", 0, ["C17"]),
    ("fmm_div_transform_factor", "bempp_cl/api/fmm/fmm_assembler.py", "data[index] = 2.0 * edge_lengths[function_index] * (weights[point_index])", "data[index] = edge_lengths[function_index] * (weights[point_index])", 0, ["C17"]),
    ("fmm_curl_without_normal_multiplier", "bempp_cl/api/fmm/fmm_assembler.py", "surface_curl = normal_multipliers[element] * _np.cross(", "surface_curl = _np.cross(", 0, ["C17"]),
    ("fmm_basis_multipliers_twice", "bempp_cl/api/fmm/fmm_assembler.py", "        space.localised_space.local_multipliers,\n", "        space.local_multipliers,\n", 0, ["C17"]),
    ("near_field_coefficient_index", "bempp_cl/api/fmm/helpers.py", "* coeffs[npoints * source_element + source_point_index]", "* coeffs[npoints * source_element_index + source_point_index]", 0, ["C17"]),
    ("near_field_matrix_column", "bempp_cl/api/fmm/helpers.py", "indices[local_count] = npoints * source_element + source_point_index", "indices[local_count] = npoints * source_element_index + source_point_index", 0, ["C17"]),
    ("near_field_read_stride", "bempp_cl/api/fmm/helpers.py", "                                + 4 * source_element_index * npoints\n", "                                + 4 * source_element_index * nneighbors\n", 0, ["C17"]),
    ("near_field_wrong_neighbours", "bempp_cl/api/fmm/helpers.py", "neighbor_indices[neighbor_indexptr[target_element] : neighbor_indexptr[1 + target_element]]", "neighbor_indices[neighbor_indexptr[target_element] : neighbor_indexptr[target_element] + nneighbors - 1]", 0, ["C17"]),
    ("maxwell_fmm_efield_sign", "bempp_cl/api/fmm/fmm_assembler.py", "result *= -1j * wavenumber", "result *= 1j * wavenumber", 0, ["C17"]),
    ("maxwell_fmm_curl_component", "bempp_cl/api/fmm/fmm_assembler.py", "(vals[2][:, 1] - vals[1][:, 2]).reshape(-1, 1),", "(vals[2][:, 1] - vals[1][:, 0]).reshape(-1, 1),", 0, ["C17"]),
    ("maxwell_fmm_test_maps_from_domain", "bempp_cl/api/fmm/fmm_assembler.py", "_, dual_rwg_map = compute_rwg_basis_transform(dual_to_range, order)", "_, dual_rwg_map = compute_rwg_basis_transform(domain, order)", 0, ["C17"]),
    ("potential_fmm_dl_sign", "bempp_cl/api/fmm/fmm_assembler.py", "return -(fmm0 + fmm1 + fmm2).reshape([1, -1])", "return (fmm0 + fmm1 + fmm2).reshape([1, -1])", 0, ["C17"]),
    ("maxwell_fmm_epot_div_sign", "bempp_cl/api/fmm/fmm_assembler.py", "            - 1.0 / (1j * wavenumber) * fmm_interface.evaluate(div_map @ x)[:, 1:].T", "            + 1.0 / (1j * wavenumber) * fmm_interface.evaluate(div_map @ x)[:, 1:].T", 0, ["C17"]),
    ("maxwell_fmm_hpot_curl", "bempp_cl/api/fmm/fmm_assembler.py", "                (vals[1][:, 0] - vals[0][:, 1]),\n", "                (vals[0][:, 1] - vals[1][:, 0]),\n", 0, ["C17"]),
    ("fmm_rows_by_position", "bempp_cl/api/fmm/fmm_assembler.py", "iind[index] = number_of_quad_points * element + point_index", "iind[index] = number_of_quad_points * element_index + point_index", 1, ["C17"]),
    ("fmm_normals_by_position", "bempp_cl/api/fmm/fmm_assembler.py", "normals[npoints * element + n, :] = grid.normals[element] * space.normal_multipliers[element]", "normals[npoints * element + n, :] = grid.normals[element]", 0, ["C17"]),
    ("fmm_select_double_before_adjoint", "bempp_cl/api/fmm/fmm_assembler.py", "    elif \"adjoint_double\" in operator_descriptor.identifier:\n        return evaluate_adjoint_double_layer\n    elif \"double\" in operator_descriptor.identifier:\n        return evaluate_double_layer", "    elif \"double\" in operator_descriptor.identifier:\n        return evaluate_double_layer\n    elif \"adjoint_double\" in operator_descriptor.identifier:\n        return evaluate_adjoint_double_layer", 0, ["C17"]),
    ("fmm_select_hyp_family", "bempp_cl/api/fmm/fmm_assembler.py", "    if operator_descriptor.identifier == \"helmholtz_hypersingular_boundary\":\n        return evaluate_helmholtz_hypersingular", "    if operator_descriptor.identifier == \"helmholtz_hypersingular_boundary\":\n        return evaluate_modified_helmholtz_hypersingular", 0, ["C17"]),
    ("fmm_hyp_k2_sign", "bempp_cl/api/fmm/fmm_assembler.py", "return first_part - wavenumber * wavenumber * second_part + singular_part @ x", "return first_part + wavenumber * wavenumber * second_part + singular_part @ x", 0, ["C17"]),
    ("dispatch_boundary_wrong_layer", "bempp_cl/api/operators/boundary/helmholtz.py", "from .modified_helmholtz import double_layer as _modified_double_layer", "from .modified_helmholtz import adjoint_double_layer as _modified_double_layer", 0, ["C05"]),
    ("dispatch_options_order", "bempp_cl/api/operators/boundary/helmholtz.py", "        [_np.real(wavenumber), _np.imag(wavenumber)],\n        \"helmholtz_double_layer\",", "        [_np.imag(wavenumber), _np.real(wavenumber)],\n        \"helmholtz_double_layer\",", 0, ["C05"]),
    ("potential_factory_kernel", "bempp_cl/api/operators/potential/maxwell.py", '"maxwell_magnetic_field",  # Assembly type', '"maxwell_electric_field",  # Assembly type', 0, []),
    # rules added after the round-3 / round-4 seeds and the unread-function survey
    ("assembler_interface_params_dropped", "bempp_cl/api/assembly/assembler.py", "        self._parameters = _api.assign_parameters(parameters)", "        self._parameters = _api.assign_parameters(None)", 0, ["C18"]),
    ("assembler_interface_precision_pinned", "bempp_cl/api/assembly/assembler.py", "        self._precision = precision", "        self._precision = \"double\"", 0, ["C18"]),
    ("assembler_default_device_always", "bempp_cl/api/assembly/assembler.py", "        if self._device_interface is None:\n            self._device_interface = bempp_cl.api.DEFAULT_DEVICE_INTERFACE",
     "        self._device_interface = bempp_cl.api.DEFAULT_DEVICE_INTERFACE", 0, ["C18"]),
    ("create_assembler_nonlocal_sparse", "bempp_cl/api/assembly/assembler.py", "    if identifier == \"default_nonlocal\":\n        return DenseAssembler(domain, dual_to_range, parameters)",
     "    if identifier == \"default_nonlocal\":\n        return SparseAssembler(domain, dual_to_range, parameters)", 0, ["C18"]),
    ("localised_space_order_dropped", "bempp_cl/api/space/space.py", "        .set_order(space.order)\n        .set_shapeset(space.shapeset.identifier)\n        .set_is_localised(True)", "        .set_shapeset(space.shapeset.identifier)\n        .set_is_localised(True)", 0, ["C04", "C09"]),
    ("localised_space_multipliers_on_all", "bempp_cl/api/space/space.py", "    local_multipliers[space.support] = 1\n", "    local_multipliers[:] = 1\n", 0, ["C04", "C09"]),
    ("bc_fan_cell_count_other_pole", "bempp_cl/api/grid/grid.py", "edge_lengths, vertex_edges2, bary_grid, local2global, 1.0, nc2, global_dof_index\n", "edge_lengths, vertex_edges2, bary_grid, local2global, 1.0, nc1, global_dof_index\n", 0, ["C10"]),
    ("bc_fan_interior_helper_for_border_pole", "bempp_cl/api/grid/grid.py", "    if border_edges1 and not border_edges2:", "    if border_edges2 and not border_edges1:", 0, ["C10"]),
    ("l2_norm_without_conjugate", "bempp_cl/api/assembly/grid_function.py", "        return np.sqrt(np.abs(vec.conjugate().T.dot(mass.dot(vec))))", "        return np.sqrt(np.abs(vec.T.dot(mass.dot(vec))))", 0, ["C13"]),
    ("transpose_flag_constant_g21", "bempp_cl/api/assembly/boundary_operator.py", "self._operator_descriptor, not self.transpose_\n", "self._operator_descriptor, True\n", 0, ["C14"]),
    ("transpose_range_dual_exchanged_g21", "bempp_cl/api/assembly/boundary_operator.py", "self._dual_to_range, _range, self._domain, self._assembler", "self._dual_to_range, self._domain, _range, self._assembler", 0, ["C14"]),
    ("dense_adjoint_without_conjugate", "bempp_cl/api/assembly/discrete_boundary_operator.py", "return DenseDiscreteBoundaryOperator(self.to_dense().conjugate().transpose())", "return DenseDiscreteBoundaryOperator(self.to_dense().transpose())", 0, ["C14"]),
    ("sparse_transpose_conjugates", "bempp_cl/api/assembly/discrete_boundary_operator.py", "return SparseDiscreteBoundaryOperator(self.to_sparse().transpose())", "return SparseDiscreteBoundaryOperator(self.to_sparse().transpose().conjugate())", 0, ["C14"]),
    ("rank_one_transpose_not_exchanged", "bempp_cl/api/assembly/discrete_boundary_operator.py", "return DiscreteRankOneOperator(self._row, self._column)", "return DiscreteRankOneOperator(self._column, self._row)", 0, ["C14"]),
    ("diagonal_adjoint_not_conjugated", "bempp_cl/api/assembly/discrete_boundary_operator.py", "return DiagonalOperator(self._values.conjugate())", "return DiagonalOperator(self._values)", 0, ["C14"]),
    ("invert_l2g_any_instead_of_each", "bempp_cl/api/space/space.py", "            if local_multipliers[elem_index, local_index] != 0:\n                global2local_map[dof].append((elem_index, local_index))", "            if _np.all(local_multipliers[elem_index] != 0):\n                global2local_map[dof].append((elem_index, local_index))", 0, ["C16", "C09"]),
    ("invert_l2g_positive_only", "bempp_cl/api/space/space.py", "            if local_multipliers[elem_index, local_index] != 0:\n                global2local_map[dof]", "            if local_multipliers[elem_index, local_index] > 0:\n                global2local_map[dof]", 0, ["C16", "C09"]),
    ("dense_matmat_real_test_on_operand_only", "bempp_cl/api/assembly/discrete_boundary_operator.py", "        if _np.iscomplexobj(x) and not _np.iscomplexobj(self.to_dense()):\n            return self.to_dense().dot(_np.real(x)", "        if _np.iscomplexobj(x) and self.dtype == _np.float64:\n            return self.to_dense().dot(_np.real(x)", 0, ["C14"]),
    ("dense_add_in_place_on_operand", "bempp_cl/api/assembly/discrete_boundary_operator.py", "            return DenseDiscreteBoundaryOperator(self.to_dense() + other.to_dense())", "            total = self.to_dense()\n            total += other.to_dense()\n            return DenseDiscreteBoundaryOperator(total)", 0, ["C18", "C14"]),
    ("dense_neg_in_place_view", "bempp_cl/api/assembly/discrete_boundary_operator.py", "        return DenseDiscreteBoundaryOperator(-self.to_dense())", "        mat = _np.asarray(self._impl)\n        mat *= -1\n        return DenseDiscreteBoundaryOperator(mat)", 0, ["C18", "C14"]),
    ("sparse_assembler_drops_parameters", "bempp_cl/core/sparse_assembler.py", "super().__init__(domain, dual_to_range, parameters)", "super().__init__(domain, dual_to_range)", 0, ["C18", "C07"]),
    ("singular_assembler_drops_parameters", "bempp_cl/core/singular_assembler.py", "super().__init__(domain, dual_to_range, parameters)", "super().__init__(domain, dual_to_range)", 0, ["C18", "C07"]),
    ("singular_weights_offsets_uint16", "bempp_cl/core/singular_assembler.py", "        weights_offsets = _np.empty(self.index_count[\"all\"], dtype=\"uint32\")", "        weights_offsets = _np.empty(self.index_count[\"all\"], dtype=\"uint16\")", 0, ["C01"]),
    ("singular_test_offsets_int16", "bempp_cl/core/singular_assembler.py", "        test_offsets = _np.empty(self.index_count[\"all\"], dtype=\"uint32\")", "        test_offsets = _np.empty(self.index_count[\"all\"], dtype=_np.int16)", 0, ["C01", "C03"]),
    ("coefficients_pack_promotion_after_loop", "bempp_cl/api/assembly/blocked_operator.py", "    for item in grid_funs:\n        input_type = _np.promote_types(input_type, item.coefficients.dtype)\n        vec_len += item.space.global_dof_count\n", "    for item in grid_funs:\n        vec_len += item.space.global_dof_count\n    input_type = _np.promote_types(input_type, item.coefficients.dtype)\n", 0, ["C14", "C15"]),
    ("triangle_rule_lower_bound_dropped", "bempp_cl/api/integration/triangle_gauss.py", "    if order < 1 or order > 20:\n", "    if order > 20:\n", 0, ["C12"]),
    ("cl_helmholtz_sl_decay_only_positive_imag", "bempp_cl/core/sources/include/kernels.h", "    if (kernel_parameters[1] != M_ZERO) {", "    if (kernel_parameters[1] > M_ZERO) {", 0, ["C20"]),
    ("numba_helmholtz_adl_decay_only_negative_imag", "bempp_cl/core/numba_kernels.py", "    if wavenumber_imag != 0:", "    if wavenumber_imag < 0:", 3, ["C05"]),
    ("regular_gate_hoisted_flags_uninitialised", "bempp_cl/core/numba_kernels.py", "        is_adjacent = _np.zeros(n_trial_elements, dtype=_np.bool_)\n\n        for trial_element_index in range(n_trial_elements):\n            trial_element = trial_elements[trial_element_index]\n            if grids_identical and elements_adjacent(test_grid_data.elements, test_element, trial_element):\n                is_adjacent[trial_element_index] = True\n", "        is_adjacent = _np.empty(n_trial_elements, dtype=_np.bool_)\n\n        if grids_identical:\n            for trial_element_index in range(n_trial_elements):\n                trial_element = trial_elements[trial_element_index]\n                is_adjacent[trial_element_index] = elements_adjacent(test_grid_data.elements, test_element, trial_element)\n", 0, ["C16", "C07"]),
    ("duffy_gauss_order_minus_one", "bempp_cl/api/integration/duffy_galerkin.py", "    xreg, wreg = gauss_rule(order)\n", "    xreg, wreg = gauss_rule(max(order - 1, 1))\n", 0, ["C12", "C01"]),
    ("cl_realtype3_float_in_double_block", "bempp_cl/core/sources/include/bempp_base_types.h", "    typedef double3 REALTYPE3;", "    typedef float3 REALTYPE3;", 0, ["C20"]),
    ("helmholtz_adl_dispatch_abs_wavenumber", "bempp_cl/api/operators/boundary/helmholtz.py", "            _np.imag(wavenumber),\n", "            _np.abs(wavenumber),\n", 2, ["C05", "C07"]),
    ("geometry_normals_clamped_norm", "bempp_cl/api/grid/grid.py", "        normals = normal_directions / _np.expand_dims(normal_direction_norms, 1)", "        normals = normal_directions / _np.expand_dims(_np.maximum(normal_direction_norms, 1e-14), 1)", 0, ["C11", "C01", "C03"]),
    ("potential_rule_in_closure_global", "bempp_cl/core/numba_assemblers.py", "    def evaluator(x):\n        \"\"\"Actually evaluate the potential.\"\"\"\n", "    def evaluator(x):\n        \"\"\"Actually evaluate the potential.\"\"\"\n        quad_points, quad_weights = rule(parameters.quadrature.regular)\n", 0, ["C18"]),
]

# behaviour-preserving rewrites: every listed check must stay silent (exit 0)
EQUIVALENTS = [
    ('eq_invert_l2g_row_local', 'bempp_cl/api/space/space.py', "        for local_index, dof in enumerate(local2global_map[elem_index]):\n            if local_multipliers[elem_index, local_index] != 0:", "        row = local_multipliers[elem_index]\n        for local_index, dof in enumerate(local2global_map[elem_index]):\n            if row[local_index] != 0:", 0, ['C16', 'C09']),
    ('eq_dense_add_copy_then_in_place', 'bempp_cl/api/assembly/discrete_boundary_operator.py', "            return DenseDiscreteBoundaryOperator(self.to_dense() + other.to_dense())", "            total = self.to_dense().copy()\n            total += other.to_dense()\n            return DenseDiscreteBoundaryOperator(total)", 0, ['C18', 'C14']),
    ('eq_dense_assembler_parameters_keyword', 'bempp_cl/core/dense_assembler.py', "super().__init__(domain, dual_to_range, parameters)", "super().__init__(domain, dual_to_range, parameters=parameters)", 0, ['C18', 'C07']),
    ('eq_singular_offsets_int64', 'bempp_cl/core/singular_assembler.py', "        trial_offsets = _np.empty(self.index_count[\"all\"], dtype=\"uint32\")", "        trial_offsets = _np.empty(self.index_count[\"all\"], dtype=\"int64\")", 0, ['C01']),
    ('eq_triangle_rule_try_after_lower_bound', 'bempp_cl/api/integration/triangle_gauss.py', "    if order < 1 or order > 20:\n        raise ValueError(f\"Symmetric Gauss quadrature order must be between 1 and 20. Provided: {order}\")\n    npoints = points_per_order[order - 1]\n", "    if order < 1:\n        raise ValueError(f\"Symmetric Gauss quadrature order must be between 1 and 20. Provided: {order}\")\n    try:\n        npoints = points_per_order[order - 1]\n    except IndexError:\n        raise ValueError(f\"Symmetric Gauss quadrature order must be between 1 and 20. Provided: {order}\")\n", 0, ['C12']),
    ('eq_regular_gate_hoisted_zeros_kept', 'bempp_cl/core/numba_kernels.py', "        for trial_element_index in range(n_trial_elements):\n            trial_element = trial_elements[trial_element_index]\n            if grids_identical and elements_adjacent(test_grid_data.elements, test_element, trial_element):\n                is_adjacent[trial_element_index] = True\n", "        if grids_identical:\n            for trial_element_index in range(n_trial_elements):\n                trial_element = trial_elements[trial_element_index]\n                if elements_adjacent(test_grid_data.elements, test_element, trial_element):\n                    is_adjacent[trial_element_index] = True\n", 0, ['C01', 'C16', 'C07']),
    ('eq_duffy_gauss_order_via_exact_helper', 'bempp_cl/api/integration/duffy_galerkin.py', "    xreg, wreg = gauss_rule(order)\n", "    xreg, wreg = gauss_rule((2 * order - 1 + 1) // 2)\n", 0, ['C12', 'C01']),
    ('eq_p1_extension_append_guarded', 'bempp_cl/api/space/scalar_spaces.py', "                for en in non_support_neighbors:\n                    extended_support.append(en)\n", "                for en in non_support_neighbors:\n                    if en not in extended_support:\n                        extended_support.append(en)\n", 0, ['C09', 'C10']),
    ('eq_singular_assemble_dof_counts_from_originals', 'bempp_cl/core/singular_assembler.py', "        row_dof_count = dual_to_range.global_dof_count\n        col_dof_count = domain.global_dof_count\n", "        row_dof_count = self.dual_to_range.global_dof_count\n        col_dof_count = self.domain.global_dof_count\n", 0, ['C17', 'C01', 'C13']),
    ('eq_helmholtz_sl_zero_real_branch_consistent', 'bempp_cl/core/numba_kernels.py', "    for j in range(npoints):\n        output_real[j] = _np.cos(wavenumber_real * dist[j]) * m_inv_4pi / dist[j]\n        output_imag[j] = _np.sin(wavenumber_real * dist[j]) * m_inv_4pi / dist[j]\n", "    if wavenumber_real == 0:\n        for j in range(npoints):\n            output_real[j] = m_inv_4pi / dist[j]\n    else:\n        for j in range(npoints):\n            output_real[j] = _np.cos(wavenumber_real * dist[j]) * m_inv_4pi / dist[j]\n            output_imag[j] = _np.sin(wavenumber_real * dist[j]) * m_inv_4pi / dist[j]\n", 0, ['C05', 'C20']),
    ('eq_rwg_count_local', 'bempp_cl/api/space/maxwell_spaces.py', '                if len(supported_neighbors) == 2:\n                    if edge_dofs[edge_index]:', '                n_sup = len(supported_neighbors)\n                if n_sup == 2:\n                    if edge_dofs[edge_index]:', 0, ['C09']),
    ('eq_rwg_sentinel_full', 'bempp_cl/api/space/maxwell_spaces.py', '    edge_dofs = -_np.ones(number_of_edges, dtype=_np.int32)', '    edge_dofs = _np.full(number_of_edges, -1, dtype=_np.int32)', 0, ['C09', 'C16']),
    ('eq_p1_interior_inline', 'bempp_cl/api/space/scalar_spaces.py', '            node_is_interior = len(non_support_neighbors) == 0 and not grid_data.vertex_on_boundary[vertex]\n            if include_boundary_dofs or node_is_interior:', '            if include_boundary_dofs or (len(non_support_neighbors) == 0 and not grid_data.vertex_on_boundary[vertex]):', 0, ['C09']),
    ('eq_sum_guard_demorgan', 'bempp_cl/api/assembly/boundary_operator.py', '        if (\n            not op1.domain.is_compatible(op2.domain)\n            or not op1.range.is_compatible(op2.range)\n            or not op1.dual_to_range.is_compatible(op2.dual_to_range)\n        ):', '        if not (\n            op1.domain.is_compatible(op2.domain)\n            and op1.range.is_compatible(op2.range)\n            and op1.dual_to_range.is_compatible(op2.dual_to_range)\n        ):', 0, ['C14']),
    ('eq_setitem_nested_and', 'bempp_cl/api/assembly/blocked_operator.py', '        if self.range_spaces[row] is not None:\n            if operator.range != self.range_spaces[row]:', '        if self.range_spaces[row] is not None and operator.range != self.range_spaces[row]:\n            if True:', 0, ['C14']),
    ('eq_union_offset_name', 'bempp_cl/api/grid/grid.py', '                domain_indices.append(domain_indices[-1].max() + 1 + normalize_array(grid.domain_indices))', '                offset = domain_indices[-1].max() + 1\n                domain_indices.append(offset + normalize_array(grid.domain_indices))', 0, ['C11']),
    ('eq_bary_memo_ge0', 'bempp_cl/api/grid/grid.py', '            if edge_to_vertex[edge_index] > -1:', '            if edge_to_vertex[edge_index] >= 0:', 0, ['C11', 'C10']),
    ('eq_dual1_row_18', 'bempp_cl/api/space/scalar_dual_spaces.py', '                bary_dofs[count] = 6 * 3 * face_n + n\n                coarse_dofs[count] = global_dof_index\n                values[count] = 1\n', '                bary_dofs[count] = 18 * face_n + n\n                coarse_dofs[count] = global_dof_index\n                values[count] = 1\n', 0, ['C10', 'C09']),
    ('eq_fmm_mode_in_tuple', 'bempp_cl/api/fmm/fmm_assembler.py', '    elif descriptor == "helmholtz":\n        return "helmholtz"\n    elif descriptor == "modified":\n        return "modified_helmholtz"\n    elif descriptor == "maxwell":\n        return "helmholtz"', '    elif descriptor in ("helmholtz", "maxwell"):\n        return "helmholtz"\n    elif descriptor == "modified":\n        return "modified_helmholtz"', 0, ['C17']),
    ('eq_export_data_type_order', 'bempp_cl/api/grid/io.py', '        if data_type == "node":', '        if "node" == data_type:', 0, ['C19']),
    ('eq_dense_neg_mult', 'bempp_cl/api/assembly/discrete_boundary_operator.py', '        return DenseDiscreteBoundaryOperator(-self.to_dense())', '        return DenseDiscreteBoundaryOperator(-(self.to_dense()))', 0, ['C14']),
    ("eq_blocked_product_guard_not_eq", "bempp_cl/api/assembly/blocked_operator.py", "        if op2.range_spaces != op1.domain_spaces:", "        if not (op1.domain_spaces == op2.range_spaces):", 0, ["C14"]),
    ("eq_p1_dof_table_init", "bempp_cl/api/space/scalar_spaces.py", "    dofs = -_np.ones(number_of_vertices)", "    dofs = _np.zeros(number_of_vertices)", 0, ["C09", "C16"]),
    ("eq_rwg_dofmap_init", "bempp_cl/api/space/maxwell_spaces.py", "        dofmap = -_np.ones(3, dtype=_np.int32)", "        dofmap = _np.zeros(3, dtype=_np.int32)", 0, ["C09", "C16"]),
    ("eq_guard_not_eq", "bempp_cl/api/operators/boundary/maxwell.py", "    if domain.identifier != \"rwg0\":", "    if not (domain.identifier == \"rwg0\"):", 0, ["C06"]),
    ("eq_guard_in_tuple", "bempp_cl/api/operators/potential/maxwell.py", "    if space.identifier != \"rwg0\":", "    if space.identifier not in (\"rwg0\",):", 0, ["C08"]),
    ("eq_cube_power", NK, "output[j] *= -m_inv_4pi / (dist[j] * dist[j] * dist[j])", "output[j] *= -m_inv_4pi / dist[j] ** 3", 0, ["C01", "C05", "C20"]),
    ("eq_commute_factors", NK, "output_real[j] = _np.cos(wavenumber_real * dist[j]) * m_inv_4pi / dist[j]", "output_real[j] = m_inv_4pi * _np.cos(dist[j] * wavenumber_real) / dist[j]", 0, ["C05", "C08", "C20"]),
    ("eq_rename_local", NK, "            local_factors[index] = factors[index] * test_grid_data.integration_elements[test_element]\n        for test_point_index in range(n_quad_points):\n            test_global_point = test_global_points[:, test_point_index]\n            kernel_values = kernel_evaluator(\n                test_global_point,\n                trial_global_points,\n                test_normal,\n                trial_normals,\n                kernel_parameters,\n            )\n            for index in range(n_trial_elements * n_quad_points):\n                tmp[index] = kernel_values[index] * (local_factors[index] * quad_weights[test_point_index])\n\n            for trial_element_index in range(n_trial_elements):\n                if is_adjacent[trial_element_index]:\n                    continue\n                trial_element = trial_elements[trial_element_index]\n                for test_fun_index in range(nshape_test):\n                    for trial_fun_index in range(nshape_trial):\n                        for quad_point_index in range(n_quad_points):\n                            local_result[trial_element_index, test_fun_index, trial_fun_index] += (\n                                tmp[trial_element_index * n_quad_points + quad_point_index]\n                                * local_trial_fun_values[0, trial_fun_index, quad_point_index]",
     "            local_factors[index] = test_grid_data.integration_elements[test_element] * factors[index]\n        for test_point_index in range(n_quad_points):\n            test_global_point = test_global_points[:, test_point_index]\n            kernel_values = kernel_evaluator(\n                test_global_point,\n                trial_global_points,\n                test_normal,\n                trial_normals,\n                kernel_parameters,\n            )\n            for index in range(n_trial_elements * n_quad_points):\n                tmp[index] = kernel_values[index] * (local_factors[index] * quad_weights[test_point_index])\n\n            for trial_element_index in range(n_trial_elements):\n                if is_adjacent[trial_element_index]:\n                    continue\n                trial_element = trial_elements[trial_element_index]\n                for test_fun_index in range(nshape_test):\n                    for trial_fun_index in range(nshape_trial):\n                        for qq in range(n_quad_points):\n                            quad_point_index = qq\n                            local_result[trial_element_index, test_fun_index, trial_fun_index] += (\n                                local_trial_fun_values[0, trial_fun_index, quad_point_index]\n                                * tmp[trial_element_index * n_quad_points + quad_point_index]", 0, ["C01", "C04", "C07", "C16"]),
    ("eq_adjacent_reorder", NK, "        elements[0, index1] == elements[0, index2]\n        or elements[0, index1] == elements[1, index2]", "        elements[0, index1] == elements[1, index2]\n        or elements[0, index1] == elements[0, index2]", 0, ["C01"]),
    ("eq_launch_temp", "bempp_cl/core/numba_assemblers.py", "    nshape_test = dual_to_range.number_of_shape_functions\n", "    test_space = dual_to_range\n    nshape_test = test_space.number_of_shape_functions\n", 0, ["C01", "C16"]),
    ("eq_singular_scatter_reorder", "bempp_cl/core/dense_assembler.py", "values = singular_values * trial_multipliers[singular_cols] * test_multipliers[singular_rows]", "values = test_multipliers[singular_rows] * singular_values * trial_multipliers[singular_cols]", 0, ["C01", "C04"]),
    ("eq_duffy_factor_order", "bempp_cl/api/integration/duffy_galerkin.py", "points_test[1, index] = xsi * (1.0 - eta1 + eta12)", "points_test[1, index] = (1.0 + eta12 - eta1) * xsi", 0, ["C12", "C01"]),
    ("eq_cl_commute", KH, "    factor1[0] = M_INV_4PI * cos(kernel_parameters[0] * dist) / (dist * dist * dist);\n    factor1[1] = M_INV_4PI * sin(kernel_parameters[0] * dist) / (dist * dist * dist);\n\n    factor2[0] = -M_ONE;\n    factor2[1] = kernel_parameters[0] * dist;\n\n    if (kernel_parameters[1] != M_ZERO) {\n        factor1[0] *= exp(-kernel_parameters[1] * dist);\n        factor1[1] *= exp(-kernel_parameters[1] * dist);\n\n        factor2[0] += -kernel_parameters[1] * dist;\n    }\n\n    product[0]", "    factor1[0] = cos(dist * kernel_parameters[0]) * M_INV_4PI / (dist * dist * dist);\n    factor1[1] = M_INV_4PI * sin(kernel_parameters[0] * dist) / (dist * dist * dist);\n\n    factor2[0] = -M_ONE;\n    factor2[1] = kernel_parameters[0] * dist;\n\n    if (kernel_parameters[1] != M_ZERO) {\n        factor1[0] *= exp(-kernel_parameters[1] * dist);\n        factor1[1] *= exp(-kernel_parameters[1] * dist);\n\n        factor2[0] += -kernel_parameters[1] * dist;\n    }\n\n    product[0]", 0, ["C20"]),
    ("eq_p1_table_float_form", "bempp_cl/api/space/scalar_spaces.py", "                [1.0, 1 / 2, 1 / 3],\n                [0.0, 1 / 3, 1 / 2],", "                [1, 0.5, 1.0 / 3],\n                [0, 1.0 / 3, 0.5],", 0, ["C10"]),
    ("eq_sort_colour_rewrite", "bempp_cl/api/space/space.py", "        for index, color in enumerate(_np.arange(ncolors, dtype=\"uint32\")):\n            colors = _np.where(self.color_map == color)[0]\n            colors_length = len(colors)\n            sorted_indices[count : count + colors_length] = colors\n            count += colors_length\n            indexptr[index + 1] = count\n",
     "        for c in range(ncolors):\n            members = _np.flatnonzero(c == self.color_map)\n            sorted_indices[count : len(members) + count] = members\n            count += len(members)\n            indexptr[1 + c] = count\n", 0, ["C16"]),
    ("eq_invert_rename", "bempp_cl/api/space/space.py", "    for elem_index in range(number_of_elements):\n        for local_index, dof in enumerate(local2global_map[elem_index]):\n            if local_multipliers[elem_index, local_index] != 0:\n                global2local_map[dof].append((elem_index, local_index))\n",
     "    for e in range(len(local2global_map)):\n        row = local2global_map[e]\n        for k, d in enumerate(row):\n            if 0 != local_multipliers[e, k]:\n                global2local_map[d].append((e, k))\n", 0, ["C16", "C09"]),
    ("eq_p1_alias_rename", "bempp_cl/api/space/scalar_spaces.py", "            max_dof = _np.max(local2global_final[element_index])\n            for local_index in range(3):\n                if local2global[element_index, local_index] == -1:\n                    local2global_final[element_index, local_index] = max_dof", "            for k in range(3):\n                if local2global[element_index, k] == -1:\n                    local2global_final[element_index, k] = local2global_final[element_index].max()", 0, ["C16", "C09"]),
    ("eq_normal_mult_rename", "bempp_cl/api/space/space.py", "    for element_index in range(number_of_elements):\n        if grid.domain_indices[element_index] in swapped_normals:\n            normal_multipliers[element_index] = -1\n        else:\n            normal_multipliers[element_index] = 1\n",
     "    for k in range(grid.number_of_elements):\n        dom = grid.domain_indices[k]\n        if dom in swapped_normals:\n            normal_multipliers[k] = -1\n        else:\n            normal_multipliers[k] = 1\n", 0, ["C03", "C09"]),
    ("eq_rwg_sign_rename", "bempp_cl/api/space/maxwell_spaces.py", "                supported_neighbors = [e for e in current_neighbors if support[e]]\n\n                if len(supported_neighbors) == 1:\n                    local_multipliers[element_index, local_index] = 1\n                else:\n                    # Assign 1 or -1 depending on element index\n                    local_multipliers[element_index, local_index] = (\n                        1 if element_index == min(supported_neighbors) else -1\n                    )",
     "                nbs = [e for e in current_neighbors if support[e]]\n\n                if len(nbs) == 1:\n                    local_multipliers[element_index, local_index] = 1\n                else:\n                    local_multipliers[element_index, local_index] = 1 if min(nbs) == element_index else -1", 0, ["C03", "C09", "C16"]),
    ("eq_vertex_average_rename", "bempp_cl/api/assembly/grid_function.py", "            for i in range(3):\n                index = grid.elements[i, element_index]\n                vertex_used[index] = True\n                element_area = grid.volumes[element_index]\n                vertex_areas[index] += element_area\n                values[:, index] += local_values[:, i] * element_area\n",
     "            area = grid.volumes[element_index]\n            for k in range(3):\n                v = grid.elements[k, element_index]\n                values[:, v] += area * local_values[:, k]\n                vertex_areas[v] += area\n                vertex_used[v] = True\n", 0, ["C13", "C19"]),
    ("eq_scalar_projection_rename", "bempp_cl/api/assembly/grid_function.py", "        for j in range(npoints):\n            point = global_points[:, j]\n\n            fun(\n                point,\n                grid_data.normals[index] * normal_multipliers[index],\n                grid_data.domain_indices[index],\n                fun_result,\n                function_parameters,\n            )\n            fvalues[:, j] = fun_result\n",
     "        normal = normal_multipliers[index] * grid_data.normals[index]\n        for q in range(points.shape[1]):\n            fun(global_points[:, q], normal, grid_data.domain_indices[index], fun_result, function_parameters)\n            fvalues[:, q] = fun_result\n", 0, ["C13"]),
    ("eq_p1_place_arithmetic", "bempp_cl/api/space/scalar_spaces.py", "bary_dofs[count : count + 18] = _np.arange(3 * bary_elements[0], 3 * bary_elements[0] + 18)", "bary_dofs[count : count + 18] = _np.arange(18 * index, 18 * (index + 1))", 0, ["C10"]),
    ("eq_compat_spelling", "bempp_cl/api/space/space.py", "    is_barycentric = any([space.is_barycentric for space in args])\n\n    if not is_barycentric:\n        return args\n    else:\n        # Convert spaces\n        converted = [space.barycentric_representation() for space in args]\n",
     "    if not any(sp.is_barycentric for sp in args):\n        return args\n    else:\n        converted = [sp.barycentric_representation() for sp in args]\n", 0, ["C10"]),
    ("eq_dispatch_restructured", "bempp_cl/api/space/space.py", "    if kind == \"DP\":\n        if degree == 0:\n            space_f = scalar_spaces.p0_discontinuous_function_space\n        if degree == 1:\n            space_f = scalar_spaces.p1_discontinuous_function_space\n\n    if kind == \"P\":\n        if degree == 1:\n            space_f = scalar_spaces.p1_continuous_function_space\n",
     "    if kind == \"DP\" and degree == 0:\n        space_f = scalar_spaces.p0_discontinuous_function_space\n    elif kind in (\"DP\",) and degree == 1:\n        space_f = scalar_spaces.p1_discontinuous_function_space\n    elif kind == \"P\" and not degree != 1:\n        space_f = scalar_spaces.p1_continuous_function_space\n", 0, ["C09"]),
    ("eq_sparse_transform_rename", "bempp_cl/core/sparse_assembler.py", "        if domain.requires_dof_transformation:\n            mat = mat @ domain.dof_transformation\n\n        if dual_to_range.requires_dof_transformation:\n            mat = dual_to_range.dof_transformation.T @ mat\n",
     "        if dual_to_range.requires_dof_transformation:\n            tt = dual_to_range.dof_transformation.T\n            mat = tt @ mat\n\n        if domain.requires_dof_transformation:\n            mat = mat @ domain.dof_transformation\n", 0, ["C13"]),
    ("eq_fmm_select_spelling", "bempp_cl/api/fmm/fmm_assembler.py", "    if \"single\" in operator_descriptor.identifier:\n        return evaluate_single_layer\n    elif \"adjoint_double\" in operator_descriptor.identifier:\n        return evaluate_adjoint_double_layer\n    elif \"double\" in operator_descriptor.identifier:\n        return evaluate_double_layer",
     "    layer = operator_descriptor.identifier.split(\"_\")\n    if layer[-3] == \"single\":\n        return evaluate_single_layer\n    if layer[-4:-2] == [\"adjoint\", \"double\"] or \"adjoint\" in operator_descriptor.identifier:\n        return evaluate_adjoint_double_layer\n    if \"double\" in operator_descriptor.identifier:\n        return evaluate_double_layer", 0, ["C17"]),
    ("eq_geom_spelling", "bempp_cl/api/grid/grid.py", "        volumes = 0.5 * normal_direction_norms\n\n        jacobian_diff = jacobians[::2] - jacobians[1::2]", "        volumes = normal_direction_norms / 2\n\n        jacobian_diff = jacobians[1::2] - jacobians[::2]", 0, ["C11"]),
    ("eq_geom_centroid", "bempp_cl/api/grid/grid.py", "centroids = 1.0 / 3 * _np.sum(_np.reshape(element_vertices, (self.number_of_elements, 3, 3)), axis=1)", "centroids = _np.sum(element_vertices.reshape(self.number_of_elements, 3, 3), axis=1) / 3", 0, ["C11"]),
    ("eq_maxwell_fmm_unrolled", "bempp_cl/api/fmm/fmm_assembler.py", "        for index in range(3):\n            result += dual_rwg_map[index] @ fmm_interface.evaluate(domain_rwg_map[index] @ x)[:, 0]\n\n        result *= -1j * wavenumber\n",
     "        pot = [fmm_interface.evaluate(domain_rwg_map[c] @ x) for c in (0,)]\n        result = dual_rwg_map[0] @ pot[0][:, 0]\n        result += dual_rwg_map[2] @ fmm_interface.evaluate(domain_rwg_map[2] @ x)[:, 0]\n        result += dual_rwg_map[1] @ fmm_interface.evaluate(domain_rwg_map[1] @ x)[:, 0]\n        result = result * wavenumber * (-1j)\n", 0, ["C17"]),
    ("eq_block_matvec_rename", "bempp_cl/api/assembly/blocked_operator.py", "            col_dim = 0\n            local_res = res[row_dim : row_dim + self._rows[i]]\n            for j in range(self._ndims[1]):\n                local_x = x[col_dim : col_dim + self._cols[j]]\n",
     "            c0 = 0\n            col_dim = c0\n            nr = self._rows[i]\n            local_res = res[row_dim : nr + row_dim]\n            for j in range(self._ndims[1]):\n                local_x = x[col_dim : self._cols[j] + col_dim]\n", 0, ["C14"]),
    ("eq_edge_enum_spelling", "bempp_cl/api/grid/grid.py", "            if edge_tuple not in edge_tuple_to_index:\n                edge_index = number_of_edges\n                edge_tuple_to_index[edge_tuple] = edge_index\n                edges.append(edge_tuple)\n                number_of_edges += 1\n            else:\n                edge_index = edge_tuple_to_index[edge_tuple]\n",
     "            if edge_tuple in edge_tuple_to_index:\n                edge_index = edge_tuple_to_index[edge_tuple]\n            else:\n                edges.append(edge_tuple)\n                edge_index = number_of_edges\n                number_of_edges += 1\n                edge_tuple_to_index[edge_tuple] = edge_index\n", 0, ["C11"]),
    ("eq_refine_rename", "bempp_cl/api/grid/grid.py", "            vertex01 = self.element_edges[0, index] + self.number_of_vertices\n            vertex20 = self.element_edges[1, index] + self.number_of_vertices\n            vertex12 = self.element_edges[2, index] + self.number_of_vertices\n\n            new_elements[:, 4 * index] = [vertex0, vertex01, vertex20]\n\n            new_elements[:, 4 * index + 1] = [vertex01, vertex1, vertex12]\n\n            new_elements[:, 4 * index + 2] = [vertex12, vertex2, vertex20]\n\n            new_elements[:, 4 * index + 3] = [vertex01, vertex12, vertex20]\n",
     "            nv = self.number_of_vertices\n            m_a = nv + self.element_edges[0, index]\n            m_b = nv + self.element_edges[1, index]\n            m_c = nv + self.element_edges[2, index]\n            new_elements[:, 3 + 4 * index] = [m_a, m_c, m_b]\n            new_elements[:, 4 * index + 2] = [m_c, vertex2, m_b]\n            new_elements[:, 1 + index * 4] = [m_a, vertex1, m_c]\n            new_elements[:, index * 4] = [vertex0, m_a, m_b]\n", 0, ["C11", "C04"]),
    ("eq_union_rename", "bempp_cl/api/grid/grid.py", "        vertices[:, vertex_offset : vertex_offset + nvertices] = grid.vertices\n        if swapped_normals[index]:\n            current_elements = grid.elements[[0, 2, 1], :]\n        else:\n            current_elements = grid.elements\n        elements[:, element_offset : element_offset + nelements] = current_elements + vertex_offset\n        all_domain_indices[element_offset : element_offset + nelements] = domain_indices[index]\n        vertex_offset += nvertices\n        element_offset += nelements\n",
     "        if swapped_normals[index]:\n            cur = grid.elements[[1, 0, 2], :]\n        else:\n            cur = grid.elements\n        stop = nelements + element_offset\n        all_domain_indices[element_offset:stop] = domain_indices[index]\n        elements[:, element_offset:stop] = vertex_offset + cur\n        vertices[:, vertex_offset : nvertices + vertex_offset] = grid.vertices\n        element_offset += grid.number_of_elements\n        vertex_offset += grid.vertices.shape[1]\n", 0, ["C11"]),
    ("eq_boundary_loop_spelling", "bempp_cl/api/grid/grid.py", "        for boundary_edge_index in _np.flatnonzero(arr1):\n            arr0[self.edges[:, boundary_edge_index]] = True", "        for e in _np.argwhere(arr1).flatten():\n            arr0[self.edges[:, e]] = True", 0, ["C11"]),
    ("eq_filter_where", "bempp_cl/api/grid/grid.py", "filtered_indices = _np.argwhere(nvertices == filter_type).flatten()", "filtered_indices = _np.where(filter_type == nvertices)[0]", 0, ["C11"]),
    ("eq_edge_adj_rename", "bempp_cl/api/grid/grid.py", "        index_pairs = _get_shared_edge_information_for_two_elements(elements, elem0, elem1)\n        adjacency[0, index] = elem0\n        adjacency[1, index] = elem1\n        adjacency[2:, index] = index_pairs.flatten()", "        pairs = _get_shared_edge_information_for_two_elements(elements, elem0, elem1)\n        adjacency[2:, index] = pairs.flatten()\n        adjacency[1, index] = elem1\n        adjacency[0, index] = elem0", 0, ["C11", "C01", "C03"]),
    ("eq_transform_spelling", "bempp_cl/api/grid/io.py", "        res = _np.sqrt(_np.sum(_np.abs(a) ** 2, axis=0, keepdims=True))\n    elif mode == \"abs_squared\":\n        res = _np.sum(_np.abs(a) ** 2, axis=0, keepdims=True)",
     "        res = _np.linalg.norm(a, axis=0, keepdims=True)\n    elif mode == \"abs_squared\":\n        res = _np.real(_np.sum(a * _np.conj(a), axis=0, keepdims=True))", 0, ["C19"]),
    ("eq_export_rename", "bempp_cl/api/grid/io.py", "            data = _transform_array(grid_function.evaluate_on_vertices(), transformation).T\n            if _np.iscomplexobj(data):\n                point_data = {\"real\": _np.real(data), \"imag\": _np.imag(data)}", "            vals = grid_function.evaluate_on_vertices()\n            data = _transform_array(vals, transformation).T\n            if _np.iscomplexobj(data):\n                point_data = {\"imag\": _np.imag(data), \"real\": _np.real(data)}", 0, ["C19"]),
    ("eq_solver_temp", "bempp_cl/api/linalg/direct_solvers.py", "        vec = b.projections(A.dual_to_range)\n", "        dual = A.dual_to_range\n        vec = b.projections(dual)\n", 0, ["C15"]),
    ("eq_gmres_rename", "bempp_cl/api/linalg/iterative_solvers.py", "        A_op = A.strong_form()\n        b_vec = b.coefficients\n    else:\n        A_op = A.weak_form()\n        b_vec = b.projections(A.dual_to_range)\n\n    callback = IterationCounter(return_residuals)\n\n    bempp_cl.api.log(\"Starting GMRES iteration\")\n    start_time = time.time()\n    x, info = scipy.sparse.linalg.gmres(A_op, b_vec, rtol=tol, restart=restart, maxiter=maxiter, callback=callback)",
     "        rhs = b.coefficients\n        op = A.strong_form()\n    else:\n        dual = A.dual_to_range\n        rhs = b.projections(dual)\n        op = A.weak_form()\n\n    counter = IterationCounter(return_residuals)\n    callback = counter\n\n    bempp_cl.api.log(\"Starting GMRES iteration\")\n    start_time = time.time()\n    out = scipy.sparse.linalg.gmres(op, rhs, callback=callback, maxiter=maxiter, restart=restart, rtol=tol)\n    x, info = out", 0, ["C15"]),
    ("eq_sparse_support_commute", "bempp_cl/core/sparse_assembler.py", "support = domain.support * dual_to_range.support", "support = dual_to_range.support * domain.support", 0, ["C13", "C04"]),
    ("eq_potential_sum_order", NK, "                    grid_data.integration_elements[element]\n                    * quad_weights[quad_point_index]\n                    * fun_values[0, fun_index, quad_point_index]\n                    * x[number_of_shape_functions * element + fun_index]", "                    x[number_of_shape_functions * element + fun_index]\n                    * quad_weights[quad_point_index]\n                    * grid_data.integration_elements[element]\n                    * fun_values[0, fun_index, quad_point_index]", 0, ["C02", "C08", "C16"]),
]


def _apply(root, rel, old, new, occ):
    path = os.path.join(root, rel)
    with open(path, newline="") as f:
        src = f.read()
    crlf = "\r\n" in src
    text = src.replace("\r\n", "\n") if crlf else src
    idx = -1
    start = 0
    for _ in range(occ + 1):
        idx = text.find(old, start)
        if idx < 0:
            return False
        start = idx + 1
    text = text[:idx] + new + text[idx + len(old):]
    if crlf:
        text = text.replace("\n", "\r\n")
    with open(path, "w", newline="") as f:
        f.write(text)
    return True


def _run_one(job):
    kind, name, rel, old, new, occ, props, repo_root = job
    scratch = tempfile.mkdtemp(prefix="vsa_")
    try:
        shutil.copytree(os.path.join(repo_root, "bempp_cl"), os.path.join(scratch, "bempp_cl"), ignore=shutil.ignore_patterns("__pycache__", "*.npz", "*.npy", "*.msh"))
        if kind in ("seed", "eqpatch"):
            # a change seeded by a sub-agent: apply its patch.diff (old = path of the patch)
            pr = subprocess.run(["patch", "-p1", "-s", "-i", old], cwd=scratch, capture_output=True, text=True)
            if pr.returncode != 0:
                return {"name": name, "kind": kind, "status": "anchor-missing", "props": props}
            rel = "patch.diff"
        elif not _apply(scratch, rel, old, new, occ):
            return {"name": name, "kind": kind, "status": "anchor-missing", "props": props}
        # must still parse (Python files)
        if rel.endswith(".py"):
            import ast

            try:
                ast.parse(open(os.path.join(scratch, rel)).read())
            except SyntaxError as e:
                return {"name": name, "kind": kind, "status": "does-not-parse: %s" % e, "props": props}
        results = {}
        env = dict(os.environ, VERIF_REPO=scratch, VERIF_OUT=os.path.join(scratch, "out"))
        for p in props:
            pr = subprocess.run([sys.executable, "-B", "-m", "sa.run", p, "--tier", "quick"], cwd=core.VERIF, env=env, capture_output=True, text=True)
            line = [l for l in pr.stdout.splitlines() if l.startswith(("VIOLATION", "ANALYSIS-ERROR", "OK"))]
            reports = [l.strip() for l in pr.stdout.splitlines() if l.startswith("  report:")][:2]
            results[p] = {"exit": pr.returncode, "line": line[-1][:160] if line else "", "reports": [x[:220] for x in reports]}
        return {"name": name, "kind": kind, "file": rel, "props": props, "results": results}
    finally:
        shutil.rmtree(scratch, ignore_errors=True)


def _seed_jobs():
    """Changes seeded by sub-agents (/verif/seeded/<id>/): each must be reported by the checks its meta.json names."""
    import glob

    out = []
    for meta in sorted(glob.glob(os.path.join(core.VERIF, "seeded", "*", "meta.json"))):
        try:
            d = json.load(open(meta))
        except Exception:
            continue
        patch = os.path.join(os.path.dirname(meta), "patch.diff")
        props = sorted(d.get("caught_by", {}))
        if os.path.exists(patch) and props:
            out.append(("seed", "seed:" + d.get("id", os.path.basename(os.path.dirname(meta))), "patch.diff", patch, "", 0, props))
    # behaviour-preserving multi-site rewrites kept as patches: first line `# props: Cxx Cyy` names the checks that must stay silent
    for patch in sorted(glob.glob(os.path.join(core.VERIF, "selftest", "equivalent_patches", "*.diff"))):
        first = open(patch).readline()
        props = first.split(":", 1)[1].split() if first.startswith("# props:") else []
        if props:
            out.append(("eqpatch", "eqpatch:" + os.path.basename(patch)[:-5], "patch.diff", patch, "", 0, props))
    return out


def adequacy(prop):
    """Mutation adequacy of one property's check on the CURRENT tree (used by the thorough tier): every listed mutant
    naming `prop` is applied to a scratch copy and the check of `prop` alone must report it; every listed rewrite
    naming `prop` must leave it silent.  Mutants whose anchor text no longer exists in the tree are skipped (the tree
    was edited there), never counted as failures."""
    jobs = []
    for kind, lst in (("mutant", MUTANTS), ("equivalent", EQUIVALENTS)):
        for name, rel, old, new, occ, props in lst:
            if prop in props:
                jobs.append((kind, name, rel, old, new, occ, [prop], core.REPO))
    for kind, name, rel, old, new, occ, props in _seed_jobs():
        if prop in props:
            jobs.append((kind, name, rel, old, new, occ, [prop], core.REPO))
    out = {"mutants": 0, "caught": 0, "missed": [], "skipped": [], "rewrites": 0, "silent": 0, "noisy": []}
    if not jobs:
        return out
    with ProcessPoolExecutor(max_workers=min(16, len(jobs))) as ex:
        res = list(ex.map(_run_one, jobs))
    for r in res:
        if "results" not in r:
            out["skipped"].append(r["name"])
            continue
        code = r["results"][prop]["exit"]
        if r["kind"] in ("mutant", "seed"):
            out["mutants"] += 1
            if code == 1:
                out["caught"] += 1
            else:
                out["missed"].append(r["name"])
        else:
            out["rewrites"] += 1
            if code == 0:
                out["silent"] += 1
            else:
                out["noisy"].append(r["name"])
    return out


def generated_sample(prop, n=48):
    """A deterministic sample of the machine-generated mutants (tools/mutscan.py) inside the ranges `prop` is anchored in,
    run against the check of `prop` alone.  A measurement of the check (thorough tier, informational): unreported mutants
    are often behaviour-preserving, see DESIGN 10.3."""
    tools = os.path.join(core.VERIF, "tools")
    if tools not in sys.path:
        sys.path.insert(0, tools)
    import mutscan as ms

    jobs = []
    for rel, rs in sorted(ms.anchor_ranges().items()):
        path = os.path.join(core.REPO, rel)
        if not rel.endswith(".py") or not os.path.exists(path):
            continue
        mine = [(lo, hi) for lo, hi, p in rs if p == prop]
        if not mine:
            continue
        for m in ms.mutants_of(rel, open(path, newline="").read()):
            if any(lo <= m["line"] <= hi for lo, hi in mine):
                jobs.append((m, [prop]))
    total = len(jobs)
    if total > n:
        step = total / float(n)
        jobs = [jobs[int(i * step)] for i in range(n)]
    out = {"generated_in_anchor_ranges": total, "sampled": len(jobs), "reported": 0, "analysis_error": 0, "unreported": []}
    if not jobs:
        return out
    with ProcessPoolExecutor(max_workers=min(16, len(jobs))) as ex:
        res = list(ex.map(ms.run_one, jobs))
    for r in res:
        if r["status"] == "caught":
            out["reported"] += 1
        elif r["status"] == "analysis-error":
            out["analysis_error"] += 1
        elif r["status"] == "missed":
            out["unreported"].append("%s:%d %s `%s` -> `%s`" % (r["file"].rsplit("/", 1)[-1], r["line"], r["kind"], r["old"][:30], r["new"][:30]))
    return out


def equivalent_sample(prop, n=48):
    """A deterministic sample of the machine-generated behaviour-preserving rewrites (tools/eqscan.py, all kinds) of the
    functions `prop` is anchored in, run against the check of `prop` alone: the check must stay silent on every one.
    A measurement of the checker (thorough tier, informational), see DESIGN 10.4."""
    tools = os.path.join(core.VERIF, "tools")
    if tools not in sys.path:
        sys.path.insert(0, tools)
    import eqscan as es
    import mutscan as ms

    jobs = []
    for rel, rs in sorted(ms.anchor_ranges().items()):
        path = os.path.join(core.REPO, rel)
        if not rel.endswith(".py") or not os.path.exists(path):
            continue
        mine = [(lo, hi) for lo, hi, p in rs if p == prop]
        if not mine:
            continue
        for m in es.rewrites(rel, open(path, newline="").read(), 2, set(es.KINDS)):
            if any(lo <= m["end"] and m["line"] <= hi for lo, hi in mine):
                jobs.append((m, [prop]))
    total = len(jobs)
    if total > n:
        step = total / float(n)
        jobs = [jobs[int(i * step)] for i in range(n)]
    out = {"generated_in_anchor_ranges": total, "sampled": len(jobs), "silent": 0, "false_alarms": [], "cannot_analyse": []}
    if not jobs:
        return out
    with ProcessPoolExecutor(max_workers=min(16, len(jobs))) as ex:
        res = list(ex.map(es.run_one, jobs))
    for r in res:
        tag = "%s:%s %s `%s`" % (r["file"].rsplit("/", 1)[-1], r["function"], r["kind"], str(r["what"])[:40])
        if r["status"] == "silent":
            out["silent"] += 1
        elif r["status"] == "false-alarm":
            out["false_alarms"].append(tag)
        elif r["status"] == "cannot-analyse":
            out["cannot_analyse"].append(tag)
    return out


def main(argv):
    t0 = time.time()
    only = [a for a in argv if not a.startswith("-")]
    jobs = []
    for kind, lst in (("mutant", MUTANTS), ("equivalent", EQUIVALENTS)):
        for name, rel, old, new, occ, props in lst:
            if only and name not in only and not any(p in only for p in props):
                continue
            if not props:
                continue
            jobs.append((kind, name, rel, old, new, occ, props, core.REPO))
    for kind, name, rel, old, new, occ, props in _seed_jobs():
        if only and name not in only and "seeds" not in only and not any(p in only for p in props):
            continue
        jobs.append((kind, name, rel, old, new, occ, props, core.REPO))
    with ProcessPoolExecutor(max_workers=min(16, len(jobs) or 1)) as ex:
        res = list(ex.map(_run_one, jobs))
    caught = missed = noisy = quiet = broken = 0
    lines = []
    for r in res:
        if "results" not in r:
            broken += 1
            lines.append("BROKEN   %-34s %s" % (r["name"], r["status"]))
            continue
        exits = {p: v["exit"] for p, v in r["results"].items()}
        if r["kind"] in ("mutant", "seed"):
            # hand-written mutants: at least one named check reports; seeded changes: every check recorded in meta.json
            if (all(e == 1 for e in exits.values()) if r["kind"] == "seed" else any(e == 1 for e in exits.values())):
                caught += 1
                lines.append("caught   %-34s %s" % (r["name"], " ".join("%s=%d" % kv for kv in sorted(exits.items()))))
            else:
                missed += 1
                lines.append("MISSED   %-34s %s" % (r["name"], " ".join("%s=%d" % kv for kv in sorted(exits.items()))))
        else:
            if all(e == 0 for e in exits.values()):
                quiet += 1
                lines.append("silent   %-34s %s" % (r["name"], " ".join("%s=%d" % kv for kv in sorted(exits.items()))))
            else:
                noisy += 1
                lines.append("NOISY    %-34s %s" % (r["name"], " ".join("%s=%d" % kv for kv in sorted(exits.items()))))
    print("\n".join(lines))
    summary = {"mutants": caught + missed, "caught": caught, "missed": missed, "equivalents": quiet + noisy, "silent": quiet, "noisy": noisy, "broken": broken, "wall_s": round(time.time() - t0, 1)}
    print("SELFTEST %s" % json.dumps(summary))
    if not only:
        os.makedirs(os.path.join(core.VERIF, "selftest"), exist_ok=True)
        with open(os.path.join(core.VERIF, "selftest", "result.json"), "w") as f:
            json.dump({"summary": summary, "results": res}, f, indent=1)
    return 0 if not (missed or noisy or broken) else 1
