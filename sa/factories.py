"""Operator factory sites: functions in api/operators/** that build an operator from literal
(kernel_type, assembly_type) pairs through ``create_operator`` / ``OperatorDescriptor``."""

import ast
import os

from .alg import I, V
from .core import AnalysisError
from .src import arg_names, call_arg, unparse

CREATE_OPERATOR_PARAMS = [
    "identifier", "domain", "range_", "dual_to_range", "parameters", "assembler", "operator_options",
    "kernel_type", "assembly_type", "device_interface", "precision", "is_complex",
]
DESCRIPTOR_FIELDS = [
    "identifier", "options", "kernel_type", "assembly_type", "precision", "is_complex", "singular_part",
    "kernel_dimension",
]


def descriptor_fields(ctx):
    """Field order of OperatorDescriptor, read from the namedtuple declaration."""
    m = ctx.repo.mod("bempp_cl/api/operators/__init__.py")
    v = m.assigns.get("OperatorDescriptor")
    if not (isinstance(v, ast.Call) and len(v.args) == 2 and isinstance(v.args[1], ast.Constant)):
        raise AnalysisError("OperatorDescriptor declaration not found")
    return v.args[1].value.split()


def create_operator_params(ctx):
    m = ctx.repo.mod("bempp_cl/api/operators/boundary/common.py")
    return arg_names(m.fn("create_operator"))


class Site:
    def __init__(self, rel, fn, call, kind, fields):
        self.rel, self.fn, self.call, self.kind, self.fields = rel, fn, call, kind, fields

    def lit(self, name):
        n = self.fields.get(name)
        if isinstance(n, ast.Constant):
            return n.value
        return None


def sites(ctx, subdir):
    """All factory sites under api/operators/<subdir>/."""
    out = []
    cop = create_operator_params(ctx)
    dfs = descriptor_fields(ctx)
    base = "bempp_cl/api/operators/" + subdir
    for rel in ctx.repo.py_files(base):
        m = ctx.repo.mod(rel)
        for name, fn in m.functions.items():
            if "." in name:
                continue
            for node in ast.walk(fn):
                if not isinstance(node, ast.Call):
                    continue
                f = unparse(node.func)
                if f.endswith("create_operator") and not f.endswith("create_multitrace_operator"):
                    if rel.endswith("common.py"):
                        continue
                    fields = {p: call_arg(node, cop, p) for p in cop}
                    out.append(Site(rel, fn, node, "create_operator", fields))
                elif f.split(".")[-1] == "OperatorDescriptor":
                    if rel.endswith("common.py"):
                        continue
                    fields = {p: call_arg(node, dfs, p) for p in dfs}
                    fields["operator_options"] = fields.get("options")
                    out.append(Site(rel, fn, node, "OperatorDescriptor", fields))
    return out


def resolve_local_import(module, fn, alias):
    """Resolve ``from .mod import name as alias`` inside fn (or at module level) to (rel path, name)."""
    nodes = [n for n in ast.walk(fn) if isinstance(n, ast.ImportFrom)] + [
        n for n in module.tree.body if isinstance(n, ast.ImportFrom)
    ]
    for n in nodes:
        for a in n.names:
            if (a.asname or a.name) == alias:
                pkg = os.path.dirname(module.rel)
                for _ in range(max(n.level - 1, 0)):
                    pkg = os.path.dirname(pkg)
                if n.level == 0:
                    rel = (n.module or "").replace(".", "/") + ".py"
                else:
                    rel = os.path.join(pkg, (n.module or "").replace(".", "/") + ".py")
                return rel, a.name
    return None


def wavenumber_value(node, wname="wavenumber"):
    """Abstractly evaluate an expression over the complex parameter ``wname`` = kr + i*ki
    (kr, ki real atoms).  Supports real()/imag(), .real/.imag, + - * / by constants, 1j.
    Returns V or raises AnalysisError."""
    KR, KI = V.atom("kr"), V.atom("ki")

    def parts(v):
        # split polynomial value into (re, im) given real atoms
        p = v.aspoly()
        if p is None:
            raise AnalysisError("wavenumber expression is not polynomial: %s" % unparse(node))
        from .alg import C, Poly

        re = Poly({k: C(c.re) for k, c in p.t.items()})
        im = Poly({k: C(c.im) for k, c in p.t.items()})
        return V.of_poly(re), V.of_poly(im)

    def ev(e):
        if isinstance(e, ast.Name):
            if e.id == wname:
                return KR + I * KI
            raise AnalysisError("free name %s in wavenumber expression" % e.id)
        if isinstance(e, ast.Constant):
            if isinstance(e.value, complex):
                from fractions import Fraction as F
                return V.const(F(repr(e.value.real)), F(repr(e.value.imag)))
            if isinstance(e.value, (int, float)) and not isinstance(e.value, bool):
                from fractions import Fraction as F
                return V.const(F(repr(e.value)))
        if isinstance(e, ast.UnaryOp) and isinstance(e.op, ast.USub):
            return -ev(e.operand)
        if isinstance(e, ast.BinOp):
            a, b = ev(e.left), ev(e.right)
            if isinstance(e.op, ast.Add):
                return a + b
            if isinstance(e.op, ast.Sub):
                return a - b
            if isinstance(e.op, ast.Mult):
                return a * b
            if isinstance(e.op, ast.Div):
                return a / b
        if isinstance(e, ast.Call) and len(e.args) == 1 and not e.keywords:
            f = unparse(e.func).split(".")[-1]
            if f == "real":
                return parts(ev(e.args[0]))[0]
            if f == "imag":
                return parts(ev(e.args[0]))[1]
            if f in ("float", "complex"):
                return ev(e.args[0])
            if f in ("conj", "conjugate"):
                return ev(e.args[0]).conj()
            if f in ("abs", "absolute", "fabs"):
                # the modulus is a function of the wavenumber that is none of real / imag / conj: its own atom, so that
                # `omega = abs(k)` is DECIDED to differ from imag(k) (they agree only for Im k >= 0, Re k = 0)
                from .alg import V as _V

                return _V.atom("|%s|" % unparse(e.args[0]).replace(" ", ""))
        if isinstance(e, ast.Attribute) and e.attr in ("real", "imag"):
            r, i = parts(ev(e.value))
            return r if e.attr == "real" else i
        raise AnalysisError("unsupported wavenumber expression: %s" % unparse(e))

    return ev(node)
