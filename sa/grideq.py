"""C07 / C01: what `grid_a == grid_b` means.

Every decision "are test and trial space on the same grid" in the assemblers is written `domain.grid == dual_to_range.grid`
(or `!=`): it switches the singular part on and makes the regular kernels skip element pairs with a common vertex
NUMBER.  That is only right when equal grids have the same vertices and the same connectivity.  Grid defines no __eq__
on the pinned tree (object identity).  If one is defined, it is executed here over the finite abstract domain

    same id?  x  same array shapes?  x  same connectivity?  x  same vertex coordinates?

(consistent worlds only: the same id implies everything else, equal arrays imply equal shapes) and must answer True
exactly for `same id` or (`same connectivity` and `same coordinates`).  Tests the abstract inputs do not decide are an
analysis error, not a verdict.
"""

import ast
import itertools

from . import dispatch
from .core import AnalysisError
from .src import arg_names, unparse

GRID = "bempp_cl/api/grid/grid.py"
ARRAY_EQ = ("array_equal", "allclose", "array_equiv", "isclose")


def _family(text):
    t = text.replace(" ", "")
    for fam, words in (("id", ("id",)), ("conn", ("elements", "edges", "element_edges")), ("geom", ("vertices", "centroids", "normals", "volumes"))):
        if any(t.endswith("." + w) or t.endswith("._" + w) or ("." + w + ".") in t or ("._" + w + ".") in t for w in words):
            return fam
    if "number_of" in t or "shape" in t or "entity_count" in t:
        return "shape"
    return None


def _env(fn, other, world):
    """Values for every comparison of a self-attribute with the same attribute of `other` occurring in fn."""
    same_id, shapes, conn, geom = world
    env = {"isinstance(%s, Grid)" % other: True, "type(%s)" % other: "Grid", "type(self)": "Grid"}
    agree = {"id": same_id, "shape": shapes, "conn": conn, "geom": geom}
    for n in ast.walk(fn):
        if isinstance(n, ast.Attribute):
            t = unparse(n)
            fam = _family(t)
            if fam is None or not (t.startswith("self.") or t.startswith(other + ".")):
                continue
            if fam == "shape" or t.endswith(".shape"):
                fam = "shape" if not t.endswith((".id", "._id")) else fam
            side = "self" if t.startswith("self.") else "other"
            eq = agree["shape" if t.endswith(".shape") or "number_of" in t else fam]
            env[t] = "‹%s›" % (t.split(".", 1)[1]) if (side == "self" or eq) else "‹other %s›" % (t.split(".", 1)[1])
        if isinstance(n, ast.Call) and unparse(n.func).split(".")[-1] in ARRAY_EQ and len(n.args) >= 2:
            fams = {_family(unparse(a)) for a in n.args[:2]}
            if len(fams) == 1 and None not in fams:
                env[unparse(n)] = agree[fams.pop()]
        if isinstance(n, ast.Call) and isinstance(n.func, ast.Attribute) and n.func.attr in ("all", "any") and isinstance(n.func.value, ast.Compare) and not n.args:
            c = n.func.value
            fams = {_family(unparse(c.left)), _family(unparse(c.comparators[0]))}
            if len(fams) == 1 and None not in fams and isinstance(c.ops[0], (ast.Eq, ast.NotEq)):
                a = agree[fams.pop()]
                env[unparse(n)] = a if isinstance(c.ops[0], ast.Eq) else (not a)
    return env


def grid_identity(ctx):
    r = ctx.rule("GRID-IDENTITY", "`grid_a == grid_b` (the assemblers' test for 'same grid': singular part on, index-adjacent pairs skipped) is object identity, or - if Grid defines __eq__ - true exactly for the same id or "
                 "equal connectivity AND equal vertex coordinates", 1)
    m = ctx.repo.mod(GRID)
    cls = m.cls("Grid")
    meths = {s.name: s for s in cls.body if isinstance(s, ast.FunctionDef)}
    bases = [unparse(b) for b in cls.bases]
    if bases not in ([], ["object"]):
        raise AnalysisError("Grid has base classes %s: equality may be inherited" % bases)
    if "__eq__" not in meths and "__ne__" not in meths:
        r.ok("Grid defines no __eq__ / __ne__: comparison is object identity")
    for name, negate in (("__eq__", False), ("__ne__", True)):
        fn = meths.get(name)
        if fn is None:
            continue
        other = arg_names(fn)[1]
        bad = []
        for world in itertools.product((True, False), repeat=4):
            same_id, shapes, conn, geom = world
            if same_id and not (shapes and conn and geom):
                continue
            if (conn or geom) and not shapes:
                continue
            env = _env(fn, other, world)
            kind, node = dispatch.select(fn, env)
            if kind != "return" or node is None:
                raise AnalysisError("Grid.%s does not return a value for a Grid operand" % name)
            try:
                got = bool(dispatch.value(node, env))
            except dispatch.Unknown as u:
                raise AnalysisError("Grid.%s: result `%s` is not decided by (id, shapes, connectivity, coordinates) - unknown: %s" % (name, unparse(node)[:60], u))
            want = same_id or (conn and geom)
            if got != (want != negate):
                bad.append("id %s, shapes %s, connectivity %s, coordinates %s -> %s" % tuple(["same" if x else "different" for x in world] + [got]))
        r.check(not bad, "Grid." + name, GRID, "Grid." + name, fn.lineno, "Grid.%s truth table" % name,
                "two grids are reported %s in these cases: %s; the assemblers then treat element pairs of two different surfaces as pairs of one grid (singular rules applied, index-adjacent pairs skipped)" % (
                    "unequal" if negate else "equal", "; ".join(bad[:4])))
    # embedded positive: the `and` / `or` slip
    pos = ast.parse("class Grid(object):\n    def __eq__(self, other):\n        if self.id == other.id:\n            return True\n"
                    "        if not _np.array_equal(self.elements, other.elements) and not _np.allclose(self.vertices, other.vertices):\n            return False\n        return True\n").body[0].body[0]
    w = (False, True, True, False)
    env = _env(pos, "other", w)
    k, n = dispatch.select(pos, env)
    r.must_fire(k == "return" and bool(dispatch.value(n, env)) is True, "grids with equal connectivity but different coordinates compare equal")
