"""Factory guards: assemblers that hard-code a basis must be protected by a raising test in the factory.

The hypersingular assemblers compute surface curls from the reference gradients of the linear shapeset without looking
at the `test_shapeset` / `trial_shapeset` arguments, and the Maxwell assemblers and potentials build RWG (test side of
the boundary operators: SNC = n x RWG) functions from edge lengths and Piola maps.  A space of another kind would be
assembled without any error and produce numbers that mean nothing, so the property "W / E / H equal their
single-layer decompositions" needs the factory to reject such spaces.
"""

import ast

from . import dispatch
from .core import AnalysisError
from .src import arg_names

# (module, factory, {space parameter: (attribute chain compared, required literal)})
REQUIRED = [
    ("bempp_cl/api/operators/boundary/laplace.py", "hypersingular", {"domain": ("shapeset.identifier", "p1_discontinuous"), "dual_to_range": ("shapeset.identifier", "p1_discontinuous")}),
    ("bempp_cl/api/operators/boundary/helmholtz.py", "hypersingular", {"domain": ("shapeset.identifier", "p1_discontinuous"), "dual_to_range": ("shapeset.identifier", "p1_discontinuous")}),
    ("bempp_cl/api/operators/boundary/modified_helmholtz.py", "hypersingular", {"domain": ("shapeset.identifier", "p1_discontinuous"), "dual_to_range": ("shapeset.identifier", "p1_discontinuous")}),
    ("bempp_cl/api/operators/boundary/maxwell.py", "electric_field", {"domain": ("identifier", "rwg0"), "dual_to_range": ("identifier", "snc0")}),
    ("bempp_cl/api/operators/boundary/maxwell.py", "magnetic_field", {"domain": ("identifier", "rwg0"), "dual_to_range": ("identifier", "snc0")}),
    ("bempp_cl/api/operators/potential/maxwell.py", "electric_field", {"space": ("identifier", "rwg0")}),
    ("bempp_cl/api/operators/potential/maxwell.py", "magnetic_field", {"space": ("identifier", "rwg0")}),
]


def _raising_tests(fn, before_line):
    """Tests of `if <test>: raise ...` statements at the top level of fn that precede `before_line`."""
    return [st.test for st in fn.body if isinstance(st, ast.If) and st.lineno < before_line and any(isinstance(x, ast.Raise) for x in st.body)]


def _rejects(tests, env):
    for t in tests:
        try:
            if dispatch.value(t, env):
                return True
        except dispatch.Unknown:
            pass
    return False


SPACE_FILES = ("scalar_spaces.py", "scalar_dual_spaces.py", "maxwell_spaces.py")


def kinds(ctx):
    """The literals the space builders pass to set_identifier / set_shapeset: the finite domain the guards face."""
    out = {"identifier": set(), "shapeset.identifier": set()}
    for f in SPACE_FILES:
        for n in ast.walk(ctx.repo.mod("bempp_cl/api/space/" + f).tree):
            if isinstance(n, ast.Call) and isinstance(n.func, ast.Attribute) and n.func.attr in ("set_identifier", "set_shapeset") and len(n.args) == 1 and isinstance(n.args[0], ast.Constant):
                out["identifier" if n.func.attr == "set_identifier" else "shapeset.identifier"].add(n.args[0].value)
    if len(out["identifier"]) < 5 or len(out["shapeset.identifier"]) < 4:
        raise AnalysisError("space builders no longer name their identifiers / shapesets by literals: %r" % out)
    return out


def _unguarded(fn, need, dom):
    """(parameter, kind) pairs of `need` for which a space of a kind other than the required one reaches the first return."""
    rets = [n for n in ast.walk(fn) if isinstance(n, ast.Return)]
    if not rets:
        raise AnalysisError("%s has no return" % fn.name)
    tests = _raising_tests(fn, min(n.lineno for n in rets))
    good = {"%s.%s" % (par, chain): lit for par, (chain, lit) in need.items()}
    missing = []
    for par, (chain, lit) in need.items():
        for other in sorted(dom[chain] - {lit}) + ["\u2039another kind\u203a"]:
            env = dict(good)
            env["%s.%s" % (par, chain)] = other
            if not _rejects(tests, env):
                missing.append("%s.%s == '%s'" % (par, chain, other))
    return missing


def factory_guards(ctx, which, rule_id="FACTORY-GUARD"):
    req = [x for x in REQUIRED if "/%s/" % which in x[0]]
    r = ctx.rule(rule_id, "factories of operators whose assembler hard-codes its basis (hypersingular: linear shapeset; Maxwell: RWG / SNC) raise for spaces of any other kind before creating the operator", len(req))
    dom = kinds(ctx)
    for rel, fname, need in req:
        fn = ctx.repo.mod(rel).fn(fname)
        pa = arg_names(fn)
        for par in need:
            if par not in pa:
                raise AnalysisError("%s::%s lost its `%s` parameter" % (rel, fname, par))
        missing = _unguarded(fn, need, dom)
        r.check(not missing, "%s::%s" % (rel.split("operators/")[-1], fname), rel, fname, fn.lineno, "factory guard of %s %s" % (fname, missing),
                "not rejected before the operator is created: %s; such a space would be assembled silently with the hard-coded basis" % ", ".join(missing[:4]))
    bad = ast.parse("def hypersingular(domain, range_, dual_to_range):\n    if domain.shapeset.identifier != 'p1_discontinuous':\n        raise ValueError('x')\n    return 1").body[0]
    r.must_fire(bool(_unguarded(bad, REQUIRED[0][2], dom)) and all(x.startswith("dual_to_range") for x in _unguarded(bad, REQUIRED[0][2], dom)), "factory that tests only the domain space")
