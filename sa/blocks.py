"""C14: bookkeeping of blocked operators (which block goes where, which sizes and spaces are recorded and compared).

The numerical rules (BLOCK-MATVEC, BLOCK-DENSE, HOMOMORPHISM) assume that block (i, j) sits at row i / column j with the
row sizes in `_rows` and the column sizes in `_cols`, and that the continuous blocked operator keeps range / dual spaces
per row and domain spaces per column.  These rules decide that bookkeeping by abstract execution of the small
state machines in __setitem__, __getitem__, _assemble and BlockedDiscreteOperator.__init__ (sa/dispatch.effects) over
their finite abstract domains (slot empty / filled with equal / filled with different value).
"""

import ast

from . import dispatch, roles
from .core import AnalysisError
from .rwgdofs import _flat, _sentinel
from .src import arg_names, unparse

BL = "bempp_cl/api/assembly/blocked_operator.py"


def _body(fn):
    return [s for s in fn.body if not (isinstance(s, ast.Expr) and isinstance(s.value, ast.Constant)) and not isinstance(s, (ast.Import, ast.ImportFrom))]


def _super_shape(fn, what):
    """The local handed to `super().__init__(dtype, <shape>)`: the shape the operator reports."""
    calls = [c for c in ast.walk(fn) if isinstance(c, ast.Call) and _nospace(unparse(c.func)) == "super().__init__" and len(c.args) == 2 and isinstance(c.args[1], ast.Name)]
    if len(calls) != 1:
        raise AnalysisError("%s: no single super().__init__(dtype, <name>) call" % what)
    return calls[0].args[1].id


def _nospace(t):
    return t.replace(" ", "")


def setitem(ctx, r):
    fn = ctx.repo.mod(BL).fn("BlockedOperator.__setitem__")
    pa = arg_names(fn)
    key, op = pa[1], pa[2]
    body = _body(fn)
    roles_ = (("range", "range_spaces", 0), ("dual_to_range", "dual_to_range_spaces", 0), ("domain", "domain_spaces", 1))
    # locals naming key[0] / key[1]
    defs = roles.Defs(fn)
    idx = {}
    for st in body:
        if isinstance(st, ast.Assign) and isinstance(st.targets[0], ast.Name) and isinstance(st.value, ast.Subscript) and unparse(st.value.value) == key and isinstance(st.value.slice, ast.Constant):
            idx[st.targets[0].id] = st.value.slice.value

    def pos_of(text):
        t = ast.parse(text, mode="eval").body
        if isinstance(t, ast.Name) and t.id in idx:
            return idx[t.id]
        if isinstance(t, ast.Subscript) and unparse(t.value) == key and isinstance(t.slice, ast.Constant):
            return t.slice.value
        return None

    def env_for(state):
        env = {}
        for attr, lst, _ in roles_:
            env["%s.%s" % (op, attr)] = "new_" + attr
        for n in ast.walk(fn):
            if isinstance(n, ast.Subscript) and isinstance(n.value, ast.Attribute) and isinstance(n.value.value, ast.Name) and n.value.value.id == "self" and isinstance(n.ctx, ast.Load):
                for attr, lst, p in roles_:
                    if n.value.attr in (lst, "_" + lst):
                        env[unparse(n)] = {"empty": None, "same": "new_" + attr, "other": "old_" + attr}[state[attr]]
        return env

    base = {a: "empty" for a, _, _ in roles_}
    worlds = [("all slots empty", dict(base))] + [("%s slot holds the same space" % a, dict(base, **{a: "same"})) for a, _, _ in roles_] + [("%s slot holds another space" % a, dict(base, **{a: "other"})) for a, _, _ in roles_]
    for name, st in worlds:
        effs = dispatch.effects(body, env_for(st), "BlockedOperator.__setitem__")
        raised = any(e[0] == "raise" for e in effs)
        want_raise = "other" in st.values()
        stores = {}
        for e in effs:
            if e[0] == "store":
                t = ast.parse(e[1], mode="eval").body
                if isinstance(t, ast.Subscript) and isinstance(t.value, ast.Attribute):
                    stores[t.value.attr] = (unparse(t.slice), e[2])
        if want_raise:
            ok = raised and not stores
            msg = "a block whose %s differs from the space already recorded for its row / column is accepted (raise: %s, stores before it: %s)" % ([a for a, v in st.items() if v == "other"][0], raised, sorted(stores))
        else:
            want = {"_range_spaces": (0, "%s.range" % op), "_dual_to_range_spaces": (0, "%s.dual_to_range" % op), "_domain_spaces": (1, "%s.domain" % op), "_rows": (0, "True"), "_cols": (1, "True")}
            got = {k: (pos_of(v[0]), v[1]) for k, v in stores.items() if k in want}
            okop = "_operators" in stores and _nospace(stores["_operators"][0]) in (key, "%s[0],%s[1]" % (key, key), "(%s[0],%s[1])" % (key, key)) and stores["_operators"][1] == op
            ok = not raised and got == want and okop
            msg = "a compatible block is %s; recorded (list: (key position, value)) %s, expected %s; operator stored at the key: %s" % ("rejected" if raised else "accepted", got, want, okop)
        r.check(ok, "__setitem__: " + name, BL, "BlockedOperator.__setitem__", fn.lineno, "blocked __setitem__ (%s)" % name, msg)


def getitem(ctx, r):
    fn = ctx.repo.mod(BL).fn("BlockedOperator.__getitem__")
    key = arg_names(fn)[1]
    body = _body(fn)
    slot = "self._operators[%s]" % key
    kind, node = dispatch.select(ast.FunctionDef(name="g", args=fn.args, body=body, decorator_list=[], lineno=fn.lineno, col_offset=0), {slot: None})
    ok = False
    msg = "an empty slot does not return a zero operator"
    if kind == "return" and isinstance(node, ast.Call) and unparse(node.func).split(".")[-1] == "ZeroBoundaryOperator" and len(node.args) == 3:
        got = [_nospace(unparse(a)) for a in node.args]
        want = ["self.domain_spaces[%s[1]]" % key, "self.range_spaces[%s[0]]" % key, "self.dual_to_range_spaces[%s[0]]" % key]
        ok = got == want
        msg = "the zero operator of an empty slot is built on %s, expected (domain of the column, range of the row, dual of the row) %s" % (got, want)
    r.check(ok, "__getitem__: empty slot", BL, "BlockedOperator.__getitem__", fn.lineno, "blocked __getitem__ zero operator", msg)
    kind, node = dispatch.select(ast.FunctionDef(name="g", args=fn.args, body=body, decorator_list=[], lineno=fn.lineno, col_offset=0), {slot: "‹op›"})
    r.check(kind == "return" and node is not None and _nospace(unparse(node)) == _nospace(slot), "__getitem__: filled slot", BL, "BlockedOperator.__getitem__", fn.lineno, "blocked __getitem__ stored operator",
            "a filled slot returns `%s`, not the stored operator" % (unparse(node) if node is not None else None))


def assemble(ctx, r):
    fn = ctx.repo.mod(BL).fn("BlockedOperator._assemble")
    defs = roles.Defs(fn)
    S = roles.stores(fn.body, defs)
    ret = [s for s in S if s.op == "return"]
    loops = [s for s in ast.walk(fn) if isinstance(s, ast.For)]
    ok, msg = False, "loop nest over all block rows and columns not recognised"
    if len(loops) == 2 and len(ret) == 1:
        (lI, lJ) = sorted(loops, key=lambda l: l.lineno)
        rng = [unparse(l.iter).replace(" ", "") for l in (lI, lJ)]
        I, J = lI.target.id, lJ.target.id
        st = [s for s in S if s.op == "=" and isinstance(s.tnode, ast.Subscript) and s.loops == (lI, lJ)]
        full = rng == ["range(self.ndims[0])", "range(self.ndims[1])"] or rng == ["range(self._ndims[0])", "range(self._ndims[1])"]
        okst = len(st) == 1 and _nospace(unparse(st[0].tnode.slice)) in ("%s,%s" % (I, J), "(%s,%s)" % (I, J)) and _nospace(unparse(st[0].vnode)) == "self._operators[%s,%s].weak_form()" % (I, J)
        A = unparse(st[0].tnode.value) if st else None
        okret = isinstance(ret[0].vnode, ast.Call) and unparse(ret[0].vnode.func) == "BlockedDiscreteOperator" and len(ret[0].vnode.args) == 1 and unparse(ret[0].vnode.args[0]) == A
        guard_ok = bool(st) and len(st[0].guards) == 1 and st[0].guards[0] in (
            (roles.expect("self._operators[I, J] is not None", defs, st[0].node.lineno, I=I, J=J), True), (roles.expect("self._operators[I, J] is None", defs, st[0].node.lineno, I=I, J=J), False))
        ok = full and okst and okret and guard_ok
        msg = "loops over all rows / columns: %s; ops[i, j] = self._operators[i, j].weak_form(): %s; only for filled slots: %s; BlockedDiscreteOperator(ops) returned: %s" % (full, okst, guard_ok, okret)
    r.check(ok, "_assemble", BL, "BlockedOperator._assemble", fn.lineno, "blocked _assemble", msg)
    # the completeness test used before assembling
    fc = ctx.repo.mod(BL).fn("BlockedOperator._fill_complete")
    rv = [n for n in ast.walk(fc) if isinstance(n, ast.Return)][0].value
    truth = {}
    for rows_ok in (True, False):
        for cols_ok in (True, False):
            env = {"False in self._rows": not rows_ok, "False in self._cols": not cols_ok, "False not in self._rows": rows_ok, "False not in self._cols": cols_ok, "all(self._rows)": rows_ok, "all(self._cols)": cols_ok}
            truth[(rows_ok, cols_ok)] = _bool(rv, env)
    okfc = all(v == (a and b) for (a, b), v in truth.items())
    r.check(okfc, "_fill_complete", BL, "BlockedOperator._fill_complete", fc.lineno, "blocked _fill_complete", "completeness is reported as %s for (all rows filled, all columns filled)" % truth)


def _bool(node, env):
    """Truth of a boolean expression whose leaves are given by source text."""
    t = unparse(node)
    if t in env:
        return env[t]
    if isinstance(node, ast.BoolOp):
        vals = [_bool(v, env) for v in node.values]
        return all(vals) if isinstance(node.op, ast.And) else any(vals)
    if isinstance(node, ast.UnaryOp) and isinstance(node.op, ast.Not):
        return not _bool(node.operand, env)
    raise AnalysisError("completeness test uses an expression the analysis does not model: %s" % t)


def discrete_init(ctx, r):
    fn = ctx.repo.mod(BL).fn("BlockedDiscreteOperator.__init__")
    ops = arg_names(fn)[1]
    loops = [s for s in fn.body if isinstance(s, ast.For)]
    nests = [l for l in loops if any(isinstance(x, ast.For) for x in l.body)]
    if len(nests) != 2:
        raise AnalysisError("BlockedDiscreteOperator.__init__: expected two loop nests over the blocks, found %d" % len(nests))
    sent = {}
    for st in fn.body:
        if isinstance(st, ast.Assign) and isinstance(st.targets[0], ast.Attribute):
            s = _sentinel(st.value, fn)
            if s is not None:
                sent[unparse(st.targets[0])] = s
    if sent.get("self._rows") is None or sent.get("self._cols") is None:
        raise AnalysisError("BlockedDiscreteOperator.__init__: size tables self._rows / self._cols not initialised with a constant")
    r.check(sent["self._rows"] < 0 and sent["self._cols"] < 0, "discrete init: size sentinels", BL, "BlockedDiscreteOperator.__init__", fn.lineno, "size table sentinels",
            "the block size tables start at %s / %s: a block size cannot be told from `not recorded yet`" % (sent["self._rows"], sent["self._cols"]))
    l1 = nests[0]
    inner = [x for x in l1.body if isinstance(x, ast.For)][0]
    I, J = l1.target.id, inner.target.id
    full = [_nospace(unparse(l1.iter)), _nospace(unparse(inner.iter))]
    d = roles.Defs(fn)
    rng_ok = [roles.canon(l1.iter, d).replace(" ", ""), roles.canon(inner.iter, d).replace(" ", "")] == ["range(%s.shape[0])" % ops, "range(%s.shape[1])" % ops]
    r.check(rng_ok, "discrete init: all blocks visited", BL, "BlockedDiscreteOperator.__init__", l1.lineno, "block loop ranges", "the recording loop runs over %s, not over all rows and columns of the block array" % full)
    blk = "%s[%s, %s]" % (ops, I, J)
    for present in (False, True):
        for rs in ("unset", "same", "other"):
            for cs in ("unset", "same", "other"):
                if not present and (rs, cs) != ("unset", "unset"):
                    continue
                env = {blk: "‹op›" if present else None, "%s.shape[0]" % blk: 5, "%s.shape[1]" % blk: 7,
                       "self._rows[%s]" % I: {"unset": sent["self._rows"], "same": 5, "other": 6}[rs], "self._cols[%s]" % J: {"unset": sent["self._cols"], "same": 7, "other": 8}[cs]}
                effs = dispatch.effects(inner.body, env, "BlockedDiscreteOperator.__init__")
                raised = any(e[0] == "raise" for e in effs)
                st = {_nospace(e[1]): _nospace(e[2]) for e in effs if e[0] == "store"}
                name = "block %s, row size %s, column size %s" % ("present" if present else "None", rs, cs)
                if not present:
                    ok, msg = not raised and not st, "an empty slot records %s / raises %s" % (st, raised)
                elif "other" in (rs, cs):
                    ok, msg = raised and "self._operators[%s,%s]" % (I, J) not in st, "a block whose size differs from the one recorded for its row / column is accepted (raise %s, stores %s)" % (raised, st)
                else:
                    want = {"self._operators[%s,%s]" % (I, J): _nospace(blk)}
                    if rs == "unset":
                        want["self._rows[%s]" % I] = _nospace(blk) + ".shape[0]"
                    if cs == "unset":
                        want["self._cols[%s]" % J] = _nospace(blk) + ".shape[1]"
                    ok, msg = not raised and st == want, "stores %s, expected %s (raise %s)" % (st, want, raised)
                r.check(ok, "discrete init: " + name, BL, "BlockedDiscreteOperator.__init__", inner.lineno, "blocked discrete init (%s)" % name, msg)
    # empty slots become zero operators of (row size, column size)
    l2 = nests[1]
    in2 = [x for x in l2.body if isinstance(x, ast.For)][0]
    I2, J2 = l2.target.id, in2.target.id
    effs = dispatch.effects(in2.body, {"self._operators[%s, %s]" % (I2, J2): None}, "BlockedDiscreteOperator.__init__")
    st = {_nospace(e[1]): _nospace(e[2]) for e in effs if e[0] == "store"}
    v = st.get("self._operators[%s,%s]" % (I2, J2), "")
    okz = v.endswith("(self._rows[%s],self._cols[%s])" % (I2, J2)) and "Zero" in v
    effs2 = dispatch.effects(in2.body, {"self._operators[%s, %s]" % (I2, J2): "‹op›"}, "BlockedDiscreteOperator.__init__")
    r.check(okz and not [e for e in effs2 if e[0] == "store"], "discrete init: zero fill", BL, "BlockedDiscreteOperator.__init__", l2.lineno, "zero operators for empty slots",
            "an empty slot (i, j) is filled with `%s`, expected a zero operator of shape (row size i, column size j); filled slots overwritten: %s" % (v, bool([e for e in effs2 if e[0] == "store"])))
    shp = [s for s in fn.body if isinstance(s, ast.Assign) and unparse(s.targets[0]) == _super_shape(fn, "BlockedDiscreteOperator.__init__")]
    oks = len(shp) == 1 and _nospace(unparse(shp[0].value)) in ("(_np.sum(self._rows),_np.sum(self._cols))", "(sum(self._rows),sum(self._cols))", "(self._rows.sum(),self._cols.sum())")
    r.check(oks, "discrete init: shape", BL, "BlockedDiscreteOperator.__init__", shp[0].lineno if shp else fn.lineno, "blocked discrete shape", "shape is `%s`, expected (sum of row sizes, sum of column sizes)" % (unparse(shp[0].value) if shp else None))


def mul_list(ctx, r):
    fn = ctx.repo.mod(BL).fn("BlockedOperatorBase.__mul__")
    o = arg_names(fn)[1]
    body = _body(fn)
    base = {}
    for n in ast.walk(fn):
        if isinstance(n, ast.Call) and isinstance(n.func, ast.Name) and n.func.id == "isinstance":
            base[unparse(n)] = "Iterable" in unparse(n) or "GridFunction" in unparse(n)
        if isinstance(n, ast.Call) and unparse(n.func).split(".")[-1] == "isscalar":
            base[unparse(n)] = False
    lens = [n for n in ast.walk(fn) if isinstance(n, ast.Call) and isinstance(n.func, ast.Name) and n.func.id == "len"]
    if not lens:
        raise AnalysisError("BlockedOperatorBase.__mul__: the length of the list operand is never taken")
    for same in (True, False):
        env = dict(base)
        for l in lens:
            env[unparse(l)] = 3
        env["self.ndims[1]"] = 3 if same else 2
        env["self.ndims[0]"] = 5
        env["self.ndims"] = (5, 3 if same else 2)
        effs = dispatch.effects(body, env, "BlockedOperatorBase.__mul__")
        raised = [i for i, e in enumerate(effs) if e[0] == "raise"]
        used = [i for i, e in enumerate(effs) if e[0] in ("set",) and isinstance(e[2], str) and "weak_form" in e[2]]
        ok = (not raised) if same else (bool(raised) and (not used or raised[0] < used[0]))
        r.check(ok, "__mul__ with a list of %s functions" % ("as many" if same else "the wrong number of"), BL, "BlockedOperatorBase.__mul__", fn.lineno, "blocked operator times list, length check",
                "a list whose length %s the number of block columns %s" % ("equals" if same else "differs from", "is rejected" if same else "is accepted"))


def block_bookkeeping(ctx):
    r = ctx.rule("BLOCK-BOOKKEEPING", "blocked operators: __setitem__ records range / dual per row and domain per column and rejects a block that disagrees with them; empty slots read as zero operators on (domain of the column, range and dual of the row); _assemble takes weak_form() of every filled slot; the discrete operator records one size per row / column, rejects disagreeing blocks, fills empty slots with zero blocks of the recorded sizes; a list operand must have one function per block column", 27)
    setitem(ctx, r)
    getitem(ctx, r)
    assemble(ctx, r)
    discrete_init(ctx, r)
    mul_list(ctx, r)
    bad = ast.parse("def __setitem__(self, key, operator):\n    row = key[0]\n    col = key[1]\n    self._range_spaces[col] = operator.range\n").body[0]
    effs = dispatch.effects(bad.body, {}, "x")
    r.must_fire(any(e[0] == "store" and e[1] == "self._range_spaces[col]" for e in effs), "range space recorded per column")


# ---------------------------------------------------------------- packing of lists of grid functions into one vector


def _pack_checks(fn, count_src, payload_src, lens_too):
    """Running-offset discipline of a pack / unpack loop.  count_src / payload_src: expected per-item count and stored value
    with the placeholder ITEM for the loop variable of the storing loop."""
    defs = roles.Defs(fn)
    S = roles.stores(fn.body, defs)
    out = []
    rets = [s for s in S if s.op == "return" and isinstance(s.vnode, ast.Name)]
    if len(rets) != 1:
        return [("single result", False, "does not return one local result")]
    R = rets[0].vnode.id
    # the loop that fills the result
    fills = [s for s in S if s.op == "=" and isinstance(s.tnode, ast.Subscript) and unparse(s.tnode.value) == R and len(s.loops) == 1 and not s.guards]
    if len(fills) != 1:
        return [("one store per item", False, "the result `%s` is not filled by exactly one unguarded store per item (found %d)" % (R, len(fills)))]
    f = fills[0]
    loop = f.loops[0]
    if not isinstance(loop.target, ast.Name):
        return [("item loop", False, "the filling loop does not run over single items")]
    item = loop.target.id
    incs = [s for s in S if s.op == "Add=" and isinstance(s.tnode, ast.Name) and s.loops == (loop,) and not s.guards]
    if len(incs) != 1:
        return [("running offset", False, "no single unguarded running offset is advanced in the filling loop (found %s)" % [s.target for s in incs])]
    P = incs[0].target
    cnt = roles.expect(count_src, defs, incs[0].node.lineno, ITEM=item)
    out.append(("offset advanced by the item's length", incs[0].value == cnt, "the offset `%s` is advanced by `%s`, expected `%s`" % (P, incs[0].value, cnt)))
    init0 = any(isinstance(st, ast.Assign) and unparse(st.targets[0]) == P and isinstance(st.value, ast.Constant) and st.value.value == 0 and st.lineno < loop.lineno for st in fn.body)
    out.append(("offset starts at 0", init0, "the offset `%s` is not initialised to 0 before the loop" % P))
    want_t = roles.expect("R[P:P + (%s)]" % count_src, defs, f.node.lineno, R=R, P=P, ITEM=item)
    out.append(("slice [offset, offset + length)", f.target == want_t, "items are stored at `%s`, expected `%s`" % (f.target, want_t)))
    want_v = roles.expect(payload_src, defs, f.node.lineno, ITEM=item)
    out.append(("payload", f.value == want_v, "the value stored is `%s`, expected `%s`" % (f.value, want_v)))
    out.append(("offset advanced after the store", incs[0].node.lineno > f.node.lineno, "the offset is advanced before the item is stored"))
    if lens_too:
        # total length: a counter advanced by the same per-item length over the same list, used to allocate the result
        alloc = defs.alloc(R, f.node.lineno)
        tot = None
        if alloc and alloc[0] == "expr" and isinstance(alloc[1], ast.Call) and alloc[1].args and isinstance(alloc[1].args[0], ast.Name):
            tot = alloc[1].args[0].id
        tl = [s for s in S if s.op == "Add=" and isinstance(s.tnode, ast.Name) and s.target == tot and len(s.loops) == 1 and not s.guards]
        ok = False
        msg = "the result is not allocated with a total length accumulated over the items"
        if tot and len(tl) == 1 and isinstance(tl[0].loops[0].target, ast.Name):
            it2 = tl[0].loops[0].target.id
            same_list = unparse(tl[0].loops[0].iter) == unparse(loop.iter)
            c2 = roles.expect(count_src, defs, tl[0].node.lineno, ITEM=it2)
            init = any(isinstance(st, ast.Assign) and unparse(st.targets[0]) == tot and isinstance(st.value, ast.Constant) and st.value.value == 0 and st.lineno < tl[0].loops[0].lineno for st in fn.body)
            ok = same_list and tl[0].value == c2 and init
            msg = "total length `%s`: accumulated over the same list: %s; by the item's length: %s (`%s`); from 0: %s" % (tot, same_list, tl[0].value == c2, tl[0].value, init)
        out.append(("total length", ok, msg))
    return out


def packing_offsets(ctx):
    r = ctx.rule("PACK-OFFSETS", "packing / unpacking of lists of grid functions: running offset from 0 advanced after each item by that item's length; slice [offset, offset + length); total length the sum of the item lengths", 15)
    m = ctx.repo.mod(BL)
    specs = [
        ("coefficients_from_grid_functions_list", "ITEM.space.global_dof_count", "ITEM.coefficients", True),
        ("projections_from_grid_functions_list", "len(ITEM)", "ITEM", True),
    ]
    for qn, cnt, payload, lens in specs:
        fn = m.fn(qn)
        for name, ok, msg in _pack_checks(fn, cnt, payload, lens):
            r.check(ok, "%s: %s" % (qn, name), BL, qn, fn.lineno, "%s (%s)" % (qn, name), msg)
    # the projections that are packed are those of item k onto projection space k
    fn = m.fn("projections_from_grid_functions_list")
    pa = arg_names(fn)
    okp = False
    for l in [s for s in fn.body if isinstance(s, ast.For)]:
        if _nospace(unparse(l.iter)) == "zip(%s,%s)" % (pa[0], pa[1]) and isinstance(l.target, ast.Tuple) and len(l.target.elts) == 2:
            a, b = (t.id for t in l.target.elts)
            okp = any(isinstance(n, ast.Call) and isinstance(n.func, ast.Attribute) and n.func.attr == "append" and len(n.args) == 1 and _nospace(unparse(n.args[0])) == "%s.projections(%s)" % (a, b) for n in ast.walk(l))
    r.check(okp, "projections_from_grid_functions_list: pairing", BL, "projections_from_grid_functions_list", fn.lineno, "projection pairing", "function k is not projected onto projection space k (zip of the two lists)")
    # unpacking: running offset advanced by the dof count that PACKING establishes for the slice, after the slice is taken
    for qn, owner in (("grid_function_list_from_coefficients", 0), ("grid_function_list_from_projections", 1)):
        fn = m.fn(qn)
        defs = roles.Defs(fn)
        S = roles.stores(fn.body, defs)
        loops = [s for s in fn.body if isinstance(s, ast.For)]
        ok, msg = None, "no single loop over the spaces"
        if len(loops) == 1:
            l = loops[0]
            incs = [s for s in S if s.op == "Add=" and isinstance(s.tnode, ast.Name) and s.loops == (l,) and not s.guards]
            tvars = [t.id for t in (l.target.elts if isinstance(l.target, ast.Tuple) else [l.target])]
            cnt_owner = tvars[owner] if owner < len(tvars) else tvars[0]
            calls = [c for c in ast.walk(l) if isinstance(c, ast.Call) and unparse(c.func) == "GridFunction"]
            if len(incs) == 1 and len(calls) == 1:
                P = incs[0].target
                want = roles.expect("O.global_dof_count", defs, incs[0].node.lineno, O=cnt_owner)
                init0 = any(isinstance(st, ast.Assign) and unparse(st.targets[0]) == P and isinstance(st.value, ast.Constant) and st.value.value == 0 and st.lineno < l.lineno for st in fn.body)
                sl = [k.value for k in calls[0].keywords if k.arg in ("coefficients", "projections")]
                lower_ok = bool(sl) and isinstance(sl[0], ast.Subscript) and isinstance(sl[0].slice, ast.Slice) and sl[0].slice.lower is not None and unparse(sl[0].slice.lower) == P
                ok = incs[0].value == want and init0 and lower_ok and incs[0].node.lineno > calls[0].lineno
                msg = "offset `%s` advanced by `%s` (expected `%s`): %s; starts at 0: %s; slice starts at the offset: %s; advanced after the slice is taken: %s" % (
                    P, incs[0].value, want, incs[0].value == want, init0, lower_ok, incs[0].node.lineno > calls[0].lineno)
        r.check(ok, "%s: running offset" % qn, BL, qn, fn.lineno, "%s running offset" % qn, msg)
    bad = ast.parse("def f(gfs):\n    n = 0\n    for g in gfs:\n        n += g.space.global_dof_count\n    res = _np.zeros(n)\n    pos = 0\n    for g in gfs:\n        c = g.space.global_dof_count\n        pos += c\n        res[pos:pos + c] = g.coefficients\n    return res\n").body[0]
    r.must_fire(any(not ok for _, ok, _ in _pack_checks(bad, "ITEM.space.global_dof_count", "ITEM.coefficients", True)), "offset advanced before the item is stored")


# ---------------------------------------------------------------- generalized blocked operators


def generalized(ctx):
    r = ctx.rule("GEN-BLOCKS", "generalized blocked operators: weak forms assembled block by block in place; discrete shape = (sum of first-column heights, sum of first-row widths); blocks of a row must share the height and rows the total width; matmat accumulates block (r, c) applied to its column slice into its row slice; spaces of a row / of the columns must agree", 11)
    m = ctx.repo.mod(BL)
    # (1) _assemble
    fn = m.fn("GeneralizedBlockedOperator._assemble")
    defs = roles.Defs(fn)
    loops = sorted([s for s in ast.walk(fn) if isinstance(s, ast.For)], key=lambda l: l.lineno)
    ok, msg = False, "not a row / element loop nest"
    ret = [s for s in fn.body if isinstance(s, ast.Return)]
    if len(loops) == 2 and len(ret) == 1 and isinstance(loops[0].target, ast.Name) and isinstance(loops[1].target, ast.Name):
        R, E = loops[0].target.id, loops[1].target.id
        it_ok = _nospace(unparse(loops[0].iter)) == "self._ops" and unparse(loops[1].iter) == R
        apps = [n for n in ast.walk(loops[0]) if isinstance(n, ast.Call) and isinstance(n.func, ast.Attribute) and n.func.attr == "append" and len(n.args) == 1]
        inner = [a for a in apps if any(a is x for x in ast.walk(loops[1]))]
        outer = [a for a in apps if a not in inner]
        ok = it_ok and len(inner) == 1 and len(outer) == 1 and _nospace(unparse(inner[0].args[0])) == "%s.weak_form()" % E and unparse(outer[0].args[0]) == unparse(inner[0].func.value) \
            and outer[0].lineno > loops[1].end_lineno and isinstance(ret[0].value, ast.Call) and unparse(ret[0].value.func) == "GeneralizedDiscreteBlockedOperator" and unparse(ret[0].value.args[0]) == unparse(outer[0].func.value)
        msg = "rows over self._ops / elements of the row: %s; element appended: %s; row appended after its elements to the list handed to GeneralizedDiscreteBlockedOperator: %s" % (
            it_ok, [unparse(a.args[0]) for a in inner], [unparse(a.args[0]) for a in outer])
    r.check(ok, "GeneralizedBlockedOperator._assemble", BL, "GeneralizedBlockedOperator._assemble", fn.lineno, "generalized _assemble", msg)
    # (2) discrete init: shape and sanity checks
    fn = m.fn("GeneralizedDiscreteBlockedOperator.__init__")
    ops = arg_names(fn)[1]
    defs = roles.Defs(fn)
    S = roles.stores(fn.body, defs)
    incs = [s for s in S if s.op == "Add=" and isinstance(s.tnode, ast.Subscript) and len(s.loops) == 1 and not s.guards]
    SH = _super_shape(fn, "GeneralizedDiscreteBlockedOperator.__init__")
    incs = [s for s in incs if isinstance(s.tnode.value, ast.Name) and s.tnode.value.id == SH]
    got = {}
    for s in incs:
        l = s.loops[0]
        if isinstance(l.target, ast.Name) and isinstance(s.tnode.slice, ast.Constant):
            got[s.tnode.slice.value] = (_nospace(unparse(l.iter)), _nospace(unparse(s.vnode)).replace(l.target.id, "‹x›"))
    want = {1: ("%s[0]" % ops, "‹x›.shape[1]"), 0: (ops, "‹x›[0].shape[0]")}
    r.check(got == want, "discrete shape", BL, "GeneralizedDiscreteBlockedOperator.__init__", fn.lineno, "generalized discrete shape", "shape components are accumulated as %s, expected %s" % (got, want))
    chk = [l for l in fn.body if isinstance(l, ast.For) and any(isinstance(x, ast.Raise) for x in ast.walk(l))]
    if len(chk) != 1 or not isinstance(chk[0].target, ast.Name):
        raise AnalysisError("GeneralizedDiscreteBlockedOperator.__init__: sanity-check loop not found")
    row = chk[0].target.id
    inner = [x for x in chk[0].body if isinstance(x, ast.For)]
    if len(inner) != 1 or not isinstance(inner[0].target, ast.Name) or unparse(inner[0].iter) != row:
        raise AnalysisError("GeneralizedDiscreteBlockedOperator.__init__: sanity-check loop does not run over the elements of each row")
    e = inner[0].target.id
    names = {st.targets[0].id: _nospace(unparse(st.value)) for st in chk[0].body if isinstance(st, ast.Assign) and isinstance(st.targets[0], ast.Name)}
    rd = [n for n, v in names.items() if v == "%s[0].shape[0]" % row]
    for same in (True, False):
        env = {"%s.shape[0]" % e: 5}
        for n in rd:
            env[n] = 5 if same else 6
        effs = dispatch.effects(inner[0].body, env, "GeneralizedDiscreteBlockedOperator.__init__", pinned=tuple(rd))
        raised = any(x[0] == "raise" for x in effs)
        adds = [x for x in effs if x[0] == "aug" and x[2] == "Add" and _nospace(x[3]) == "%s.shape[1]" % e]
        r.check(raised != same and (not same or len(adds) == 1), "row height %s" % ("agrees" if same else "differs"), BL, "GeneralizedDiscreteBlockedOperator.__init__", inner[0].lineno, "generalized discrete row-height check",
                "a block whose height %s that of the first block of its row is %s; widths accumulated: %s" % ("equals" if same else "differs from", "rejected" if raised else "accepted", [x[1:] for x in adds]))
    after = [st for st in chk[0].body if isinstance(st, ast.If) and st.lineno > inner[0].lineno]
    okw = False
    if len(after) == 1:
        cd = [x[1] for x in dispatch.effects(inner[0].body, {"%s.shape[0]" % e: 5, **{n: 5 for n in rd}}, "x", pinned=tuple(rd)) if x[0] == "aug"]
        if len(cd) == 1:
            t = {}
            for same in (True, False):
                t[same] = any(x[0] == "raise" for x in dispatch.effects(after, {cd[0]: 9, "%s[1]" % SH: 9 if same else 8, SH: (3, 9 if same else 8)}, "x"))
            okw = t == {True: False, False: True}
    r.check(okw, "row width check", BL, "GeneralizedDiscreteBlockedOperator.__init__", chk[0].lineno, "generalized discrete row-width check", "a row whose total width differs from the first row's is not rejected (or equal widths are)")
    # (3) matmat
    fn = m.fn("GeneralizedDiscreteBlockedOperator._matmat")
    X = arg_names(fn)[1]
    defs = roles.Defs(fn)
    S = roles.stores(fn.body, defs)
    acc = [s for s in S if isinstance(s.tnode, ast.Subscript) and len(s.loops) == 2]
    ok, msg = None, "no single accumulation inside the row / element loop nest"
    rets = [s for s in S if s.op == "return" and isinstance(s.vnode, ast.Name)]
    if len(acc) == 1 and acc[0].op == "Add=" and not acc[0].guards and len(rets) == 1:
        a = acc[0]
        lR, lE = a.loops
        if isinstance(lR.target, ast.Name) and isinstance(lE.target, ast.Name) and _nospace(unparse(lR.iter)) == "self._operators" and unparse(lE.iter) == lR.target.id:
            Rw, El = lR.target.id, lE.target.id
            O = rets[0].vnode.id
            ex = lambda src, line, **kw: roles.expect(src, defs, line, **kw)
            rc = [s for s in S if s.op == "Add=" and isinstance(s.tnode, ast.Name) and s.loops == (lR,) and not s.guards]
            cc = [s for s in S if s.op == "Add=" and isinstance(s.tnode, ast.Name) and s.loops == (lR, lE) and not s.guards]
            if len(rc) == 1 and len(cc) == 1:
                RC, CC = rc[0].target, cc[0].target
                h = ex("ROW[0].shape[0]", a.node.lineno, ROW=Rw)
                okh = rc[0].value == h
                okc = cc[0].value == ex("E.shape[1]", cc[0].node.lineno, E=El)
                tgt = a.target == ex("O[RC:RC + ROW[0].shape[0], :]", a.node.lineno, O=O, RC=RC, ROW=Rw)
                val = roles.canon(a.vnode, defs, commutative_mult=False).replace(" ", "") if isinstance(a.vnode, ast.BinOp) else ""
                vok = isinstance(a.vnode, ast.BinOp) and isinstance(a.vnode.op, ast.MatMult) and unparse(a.vnode.left) == El and roles.canon(a.vnode.right, defs, lv=True).replace(" ", "") == ex("X[CC:CC + E.shape[1], :]", a.node.lineno, X=X, CC=CC, E=El)
                rc0 = any(isinstance(st, ast.Assign) and unparse(st.targets[0]) == RC and isinstance(st.value, ast.Constant) and st.value.value == 0 and st.lineno < lR.lineno for st in fn.body)
                cc0 = [s for s in S if s.op == "=" and s.target == CC and s.value == "0" and s.loops == (lR,) and s.node.lineno < lE.lineno]
                order = cc[0].node.lineno > a.node.lineno and rc[0].node.lineno > lE.end_lineno
                ok = okh and okc and tgt and vok and rc0 and len(cc0) == 1 and order
                msg = "row offset += height of the row: %s; column offset += width of the block: %s; target rows [row offset, + height): %s; value block @ x[column slice]: %s; offsets from 0 / reset per row: %s / %s; advanced after use: %s" % (okh, okc, tgt, vok, rc0, len(cc0) == 1, order)
    r.check(ok, "GeneralizedDiscreteBlockedOperator._matmat", BL, "GeneralizedDiscreteBlockedOperator._matmat", fn.lineno, "generalized discrete matmat", msg)
    # (4) to_dense
    fn = m.fn("GeneralizedDiscreteBlockedOperator.to_dense")
    ret = [s for s in fn.body if isinstance(s, ast.Return)]
    l = [s for s in fn.body if isinstance(s, ast.For)]
    okd = False
    if len(ret) == 1 and len(l) == 1 and isinstance(ret[0].value, ast.Call) and unparse(ret[0].value.func).split(".")[-1] == "block" and isinstance(l[0].target, ast.Name) and _nospace(unparse(l[0].iter)) == "self._operators":
        rows = unparse(ret[0].value.args[0])
        apps = [n for n in ast.walk(l[0]) if isinstance(n, ast.Call) and unparse(n.func) == rows + ".append" and len(n.args) == 1]
        if len(apps) == 1 and isinstance(apps[0].args[0], ast.ListComp):
            lc = apps[0].args[0]
            g = lc.generators[0]
            okd = len(lc.generators) == 1 and not g.ifs and unparse(g.iter) == l[0].target.id and isinstance(g.target, ast.Name) and _nospace(unparse(lc.elt)) == "%s.to_dense()" % g.target.id
    r.check(okd, "GeneralizedDiscreteBlockedOperator.to_dense", BL, "GeneralizedDiscreteBlockedOperator.to_dense", fn.lineno, "generalized discrete to_dense", "to_dense is not block([[op.to_dense() for op in row] for row in self._operators])")
    # (5) space agreement in the continuous constructor
    fn = m.fn("GeneralizedBlockedOperator.__init__")
    rows = [l for l in ast.walk(fn) if isinstance(l, ast.For) and _nospace(unparse(l.iter)) == "self._ops" and isinstance(l.target, ast.Name)]
    if len(rows) != 1:
        raise AnalysisError("GeneralizedBlockedOperator.__init__: loop over self._ops not found")
    lr = rows[0]
    rw = lr.target.id
    le = [x for x in lr.body if isinstance(x, ast.For) and unparse(x.iter) == rw and isinstance(x.target, ast.Name)]
    if len(le) != 1:
        raise AnalysisError("GeneralizedBlockedOperator.__init__: loop over the elements of a row not found")
    el = le[0].target.id
    firsts = {st.targets[0].id: _nospace(unparse(st.value)) for st in lr.body if isinstance(st, ast.Assign) and isinstance(st.targets[0], ast.Name)}
    rs = [n for n, v in firsts.items() if v == "%s[0].range_spaces" % rw]
    ds = [n for n, v in firsts.items() if v == "%s[0].dual_to_range_spaces" % rw]
    if len(rs) != 1 or len(ds) != 1:
        raise AnalysisError("GeneralizedBlockedOperator.__init__: the row's reference range / dual spaces are not taken from its first block")
    for name, bad in (("all agree", None), ("range spaces differ", "range_spaces"), ("dual spaces differ", "dual_to_range_spaces")):
        env = {rs[0]: "R", ds[0]: "D", "%s.range_spaces" % el: "R2" if bad == "range_spaces" else "R", "%s.dual_to_range_spaces" % el: "D2" if bad == "dual_to_range_spaces" else "D"}
        effs = dispatch.effects(le[0].body, env, "GeneralizedBlockedOperator.__init__")
        raised = any(x[0] == "raise" for x in effs)
        ext = [x for x in effs if x[0] == "call" and ".extend(%s.domain_spaces)" % el in _nospace(x[1])]
        okx = (raised and not ext) if bad else (not raised and len(ext) == 1)
        r.check(okx, "row blocks: " + name, BL, "GeneralizedBlockedOperator.__init__", le[0].lineno, "generalized constructor (%s)" % name,
                "a block whose %s: rejected %s; its domain spaces collected %d time(s)" % ("spaces agree with the row" if not bad else name, raised, len(ext)))
    # rows must have the same domain spaces as the first row
    tail = [st for st in lr.body if isinstance(st, ast.If) and st.lineno > le[0].lineno]
    dom = [n.func.value.id for n in ast.walk(le[0]) if isinstance(n, ast.Call) and isinstance(n.func, ast.Attribute) and n.func.attr == "extend" and isinstance(n.func.value, ast.Name)
           and _nospace(unparse(n.args[0])) == "%s.domain_spaces" % el]
    okdom = False
    if len(tail) == 1 and len(dom) == 1:
        cmp_ = [n for n in ast.walk(tail[0]) if isinstance(n, ast.Compare) and dom[0] in (unparse(n.left), unparse(n.comparators[0]))]
        if len(cmp_) == 1:
            other = unparse(cmp_[0].comparators[0]) if unparse(cmp_[0].left) == dom[0] else unparse(cmp_[0].left)
            t = {}
            for same in (True, False):
                effs = dispatch.effects(tail, {other: "D", dom[0]: "D" if same else "D2"}, "GeneralizedBlockedOperator.__init__")
                t[same] = any(x[0] == "raise" for x in effs)
            first = dispatch.effects(tail, {other: [], dom[0]: "D"}, "GeneralizedBlockedOperator.__init__")
            okdom = t == {True: False, False: True} and any(x[0] == "set" and x[1] == other for x in first) and not any(x[0] == "raise" for x in first)
    r.check(okdom, "rows: domain spaces", BL, "GeneralizedBlockedOperator.__init__", lr.lineno, "generalized constructor (domain spaces of the rows)",
            "a row whose collected domain spaces differ from the first row's is not rejected (or an agreeing row is), or the first row does not set the reference")
    bad = ast.parse("def f(self, other):\n    rc = 0\n    out = _np.zeros(3)\n    for row in self._operators:\n        cc = 0\n        for e in row:\n            out[rc:rc + row[0].shape[0], :] += e @ other[cc:cc + e.shape[0], :]\n            cc += e.shape[1]\n        rc += row[0].shape[0]\n    return out\n").body[0]
    d2 = roles.Defs(bad)
    a = [s for s in roles.stores(bad.body, d2) if isinstance(s.tnode, ast.Subscript)][0]
    r.must_fire(roles.canon(a.vnode.right, d2, lv=True).replace(" ", "") != roles.expect("X[CC:CC + E.shape[1], :]", d2, a.node.lineno, X="other", CC="cc", E="e"), "column slice cut with the block's height")
