"""C11: union() generates disjoint, order-preserving domain-index blocks when none are given.

Abstract interpretation over *blocks*: an integer array is abstracted by (lo, hi, source grid, injective?) where lo/hi
are linear forms over symbols (min/max of the domain indices of each grid, of the block appended last, of the first
block).  The rule proves, for an arbitrary iteration of the loop over the later grids, that the block appended has
lo >= (hi of the block appended before) + 1 and is an order-preserving injective image of that grid's own indices; by
induction the blocks of different grids never share an index and indices of one grid stay distinct.
"""

import ast

from . import roles
from .core import AnalysisError
from .src import arg_names, unparse

GRID = "bempp_cl/api/grid/grid.py"


class Lin:
    def __init__(self, terms=None, const=0):
        self.t = {k: v for k, v in (terms or {}).items() if v != 0}
        self.c = const

    @staticmethod
    def sym(s):
        return Lin({s: 1})

    def __add__(self, o):
        t = dict(self.t)
        for k, v in o.t.items():
            t[k] = t.get(k, 0) + v
        return Lin(t, self.c + o.c)

    def __neg__(self):
        return Lin({k: -v for k, v in self.t.items()}, -self.c)

    def __sub__(self, o):
        return self + (-o)

    def __repr__(self):
        return " + ".join(["%s*%s" % (v, k) for k, v in sorted(self.t.items())] + [str(self.c)])


class Blk:
    def __init__(self, lo, hi, src, inj=True):
        self.lo, self.hi, self.src, self.inj = lo, hi, src, inj

    def shift(self, d):
        return Blk(self.lo + d, self.hi + d, self.src, self.inj)


class GridRef:
    def __init__(self, name):
        self.name = name


class Unsupported(Exception):
    pass


def provably_nonneg(l):
    """l >= 0 follows from hi_X - lo_X >= 0 and n_X >= 0 (symbols 'hi:X', 'lo:X', 'n:X')."""
    t = dict(l.t)
    for k in list(t):
        if k.startswith("hi:"):
            x = k[3:]
            a = t.pop(k)
            b = t.pop("lo:" + x, 0)
            if a < 0 or a + b != 0:
                return False
    for k, v in t.items():
        if k.startswith("n:"):
            if v < 0:
                return False
        else:
            return False
    return l.c >= 0


class Eval:
    def __init__(self, fn, normalizers):
        self.fn = fn
        self.normalizers = normalizers  # nested function name -> summary callable
        self.fresh = 0

    def ev(self, n, env):
        if isinstance(n, ast.Constant) and isinstance(n.value, int):
            return Lin(const=n.value)
        if isinstance(n, ast.Name):
            if n.id in env:
                return env[n.id]
            raise Unsupported("name %s" % n.id)
        if isinstance(n, ast.Attribute) and n.attr == "domain_indices":
            g = self.ev(n.value, env)
            if isinstance(g, GridRef):
                return Blk(Lin.sym("lo:" + g.name), Lin.sym("hi:" + g.name), g.name)
            raise Unsupported(unparse(n))
        if isinstance(n, ast.Subscript):
            base = self.ev(n.value, env)
            s = n.slice
            if isinstance(s, ast.UnaryOp) and isinstance(s.op, ast.USub) and isinstance(s.operand, ast.Constant):
                k = -s.operand.value
            elif isinstance(s, ast.Constant):
                k = s.value
            else:
                raise Unsupported(unparse(n))
            if isinstance(base, dict) and k in base:
                return base[k]
            raise Unsupported(unparse(n))
        if isinstance(n, ast.Call):
            f = n.func
            if isinstance(f, ast.Attribute) and f.attr in ("max", "min") and not n.args:
                b = self.ev(f.value, env)
                if isinstance(b, Blk):
                    return b.hi if f.attr == "max" else b.lo
            if isinstance(f, ast.Attribute) and f.attr in ("copy",) and not n.args:
                return self.ev(f.value, env)
            if isinstance(f, ast.Name) and f.id in self.normalizers and len(n.args) == 1:
                b = self.ev(n.args[0], env)
                if isinstance(b, Blk):
                    return self.normalizers[f.id](b)
            raise Unsupported(unparse(n)[:60])
        if isinstance(n, ast.BinOp) and isinstance(n.op, (ast.Add, ast.Sub)):
            a, b = self.ev(n.left, env), self.ev(n.right, env)
            neg = isinstance(n.op, ast.Sub)
            if isinstance(a, Lin) and isinstance(b, Lin):
                return a - b if neg else a + b
            if isinstance(a, Blk) and isinstance(b, Lin):
                return a.shift(-b if neg else b)
            if isinstance(a, Lin) and isinstance(b, Blk) and not neg:
                return b.shift(a)
            raise Unsupported(unparse(n)[:60])
        raise Unsupported(unparse(n)[:60])


def _normalizer_summary(nf, defs_outer):
    """Summary of the nested relabelling helper: Blk -> Blk, derived from its statements."""
    if len(nf.args.args) != 1:
        raise AnalysisError("union: helper %s does not take one array" % nf.name)
    p = nf.args.args[0].arg
    body = [s for s in nf.body if not (isinstance(s, ast.Expr) and isinstance(s.value, ast.Constant))]

    def summary(b):
        e = Eval(nf, {})
        env = {p: b}
        for st in body:
            if isinstance(st, ast.Assign) and len(st.targets) == 1 and isinstance(st.targets[0], ast.Name):
                env[st.targets[0].id] = e.ev(st.value, env)
            elif isinstance(st, ast.AugAssign) and isinstance(st.target, ast.Name):
                env[st.target.id] = e.ev(ast.copy_location(ast.BinOp(left=ast.Name(id=st.target.id, ctx=ast.Load()), op=st.op, right=st.value), st), env)
            elif isinstance(st, ast.For):
                # order-preserving relabelling of the values above the smallest: for i, v in enumerate(unique(arr)[1:], start=1): arr[arr == v] = i
                it = unparse(st.iter).replace(" ", "")
                tgt = st.target
                ok = isinstance(tgt, ast.Tuple) and len(tgt.elts) == 2 and all(isinstance(x, ast.Name) for x in tgt.elts)
                arrs = [k for k, v in env.items() if isinstance(v, Blk)]
                ok = ok and any(it in ("enumerate(%s.unique(%s)[1:],start=1)" % (np_, a) for np_ in ("_np", "np", "numpy")) for a in arrs)
                if ok:
                    a = [a for a in arrs if "unique(%s)" % a in it][0]
                    i, v = (x.id for x in tgt.elts)
                    ok = len(st.body) == 1 and unparse(st.body[0]).replace(" ", "") in ("%s[%s==%s]=%s" % (a, a, v, i), "%s[%s==%s]=%s" % (a, v, a, i))
                if not ok:
                    raise AnalysisError("union: relabelling loop of %s is not the order-preserving `for i, v in enumerate(unique(a)[1:], start=1): a[a == v] = i` (found `%s`)" % (nf.name, unparse(st)[:120]))
                cur = env[a]
                if cur.lo.t or cur.lo.c != 0:
                    # relabelling 1.. over values whose minimum is not 0 is not order preserving in general
                    env[a] = Blk(cur.lo, cur.hi, cur.src, False)
                else:
                    env[a] = Blk(Lin(const=0), Lin.sym("n:" + str(cur.src)), cur.src, cur.inj)
            elif isinstance(st, ast.Return):
                return e.ev(st.value, env)
            else:
                raise AnalysisError("union: statement in %s the block analysis does not model: %s" % (nf.name, unparse(st)[:80]))
        raise AnalysisError("union: %s does not return" % nf.name)

    return summary


def _branches(body, guard=()):
    """(guards, statement list) of the leaf statement lists under nested ifs."""
    ifs = [s for s in body if isinstance(s, ast.If)]
    if len(ifs) == 1 and all(isinstance(s, ast.If) or (isinstance(s, ast.Expr) and isinstance(s.value, ast.Constant)) for s in body):
        yield from _branches(ifs[0].body, guard + ((unparse(ifs[0].test), True),))
        yield from _branches(ifs[0].orelse, guard + ((unparse(ifs[0].test), False),))
    else:
        yield guard, body


def generated_blocks(fn):
    """Verdicts [(branch description, ok, message, line)] for the branches that generate domain indices."""
    params = arg_names(fn)
    gparam, dparam = params[0], params[1]
    gate = [s for s in fn.body if isinstance(s, ast.If) and unparse(s.test).replace(" ", "") == "%sisNone" % dparam]
    if len(gate) != 1:
        raise AnalysisError("union: no single `if %s is None:` block generating the domain indices" % dparam)
    normalizers = {s.name: _normalizer_summary(s, None) for s in fn.body if isinstance(s, ast.FunctionDef)}
    out = []
    for guards, body in _branches(gate[0].body):
        desc = " and ".join(("%s" if v else "not (%s)") % t for t, v in guards) or "default"
        init = [s for s in body if isinstance(s, ast.Assign) and unparse(s.targets[0]) == dparam]
        loops = [s for s in body if isinstance(s, ast.For)]
        if len(init) != 1 or len(loops) != 1 or len(body) != 2:
            raise AnalysisError("union: branch `%s` is not `<list> = [first]; for g in grids[1:]: <list>.append(next)`" % desc)
        init, loop = init[0], loops[0]
        line = loop.lineno
        if not (isinstance(init.value, ast.List) and len(init.value.elts) == 1):
            raise AnalysisError("union: branch `%s`: the list does not start with one block" % desc)
        if not (isinstance(loop.target, ast.Name) and unparse(loop.iter).replace(" ", "") == "%s[1:]" % gparam):
            out.append((desc, False, "later grids are taken from `%s`, not from %s[1:]: some grid gets no block or the first one gets two" % (unparse(loop.iter), gparam), line))
            continue
        # the loop body: locals computed from the blocks, then exactly one append
        pre = [s for s in loop.body[:-1]]
        app = loop.body[-1] if loop.body else None
        if not (isinstance(app, ast.Expr) and isinstance(app.value, ast.Call) and unparse(app.value.func) == "%s.append" % dparam and len(app.value.args) == 1) \
                or not all(isinstance(s, ast.Assign) and len(s.targets) == 1 and isinstance(s.targets[0], ast.Name) for s in pre):
            raise AnalysisError("union: branch `%s`: loop body is not `<locals>; %s.append(...)`" % (desc, dparam))
        e = Eval(fn, normalizers)
        try:
            first = e.ev(init.value.elts[0], {gparam: {0: GridRef("g0")}})
        except Unsupported as u:
            raise AnalysisError("union: branch `%s`: first block not modelled (%s)" % (desc, u))
        if not (isinstance(first, Blk) and first.src == "g0" and first.inj):
            out.append((desc, False, "the first block is not an order-preserving image of the first grid's domain indices", init.lineno))
            continue
        prev = Blk(Lin.sym("lo:prev"), Lin.sym("hi:prev"), "prev")
        frst = Blk(Lin.sym("lo:first"), Lin.sym("hi:first"), "first")
        env = {loop.target.id: GridRef("g"), dparam: {-1: prev, 0: frst}, gparam: {0: GridRef("g0")}}
        try:
            for st_ in pre:
                env[st_.targets[0].id] = e.ev(st_.value, env)
            new = e.ev(app.value.args[0], env)
        except Unsupported as u:
            raise AnalysisError("union: branch `%s`: appended block not modelled (%s)" % (desc, u))
        if not isinstance(new, Blk) or new.src != "g" or not new.inj:
            out.append((desc, False, "the block appended for a later grid is not an order-preserving image of that grid's own domain indices", line))
            continue
        gap = new.lo - prev.hi - Lin(const=1)
        ok = provably_nonneg(gap)
        out.append((desc, ok, "smallest index of the block appended for grid i minus largest index of the block appended before it, minus 1, is `%s`, which is not >= 0 for all inputs: blocks of different grids can share a domain index" % gap, line))
    return out


def union_domain_blocks(ctx):
    r = ctx.rule("UNION-DOMAINS", "union() without explicit domain indices: every later grid's block is an order-preserving image of its own indices placed strictly above the block appended before it (both normalisation modes)", 2)
    fn = ctx.repo.mod(GRID).fn("union")
    for desc, ok, msg, line in generated_blocks(fn):
        r.check(ok, "branch " + desc, GRID, "union", line, "generated domain indices, branch " + desc, msg)
    bad = ast.parse(
        "def union(grids, domain_indices=None, swapped_normals=None, normalize_domain_indices=True):\n"
        "    if domain_indices is None:\n"
        "        domain_indices = [grids[0].domain_indices]\n"
        "        for grid in grids[1:]:\n"
        "            domain_indices.append(domain_indices[0].max() - grid.domain_indices.min() + 1 + grid.domain_indices)\n").body[0]
    r.must_fire(not generated_blocks(bad)[0][1], "offset taken from the first block")
