"""Extraction of the Numba Green's-function kernels into KEX normal form."""

import ast
from fractions import Fraction as F

from . import symex
from .alg import INV4PI, I, PI, Poly, V, dot, vsum
from .core import AnalysisError
from .symex import Arr, Interp, Tensor, opaque_atom

NK = "bempp_cl/core/numba_kernels.py"

X = [V.atom("x%d" % i) for i in range(3)]
Y = [V.atom("y%d" % i) for i in range(3)]
NX = [V.atom("nx%d" % i) for i in range(3)]
NY = [V.atom("ny%d" % i) for i in range(3)]
KR, KI, W = V.atom("kr"), V.atom("ki"), V.atom("w")
GLOBALS = {"M_INV_4PI": INV4PI}


ROLE_NAMES = {
    "regular": ("assembly_functions_regular", "kernel_functions_regular"),
    "singular": ("assembly_functions_singular", "kernel_functions_singular"),
    "sparse": ("assembly_functions_sparse", "kernel_functions_sparse"),
    "potential": ("assembly_function_potential", "kernel_functions_potential"),
}


def registry_roles(ctx):
    """mode -> (local dict returned as assembler registry, local dict returned as kernel registry, the two subscripts),
    by executing select_numba_kernels for each mode (the registries are named by what the function does with them, not
    by what its locals are called)."""
    from . import dispatch
    from .src import arg_names, unparse

    fn = ctx.repo.mod(NK).fn("select_numba_kernels")
    p = arg_names(fn)
    out = {}
    for mode in ROLE_NAMES:
        kind, node = dispatch.select(fn, {p[1]: mode})
        if not (kind == "return" and isinstance(node, ast.Tuple) and len(node.elts) == 2 and all(isinstance(e, ast.Subscript) and isinstance(e.value, ast.Name) for e in node.elts)):
            raise AnalysisError("select_numba_kernels: mode %r does not return (<registry>[...], <registry>[...])" % mode)
        a, b = node.elts
        out[mode] = (a.value.id, b.value.id, unparse(a.slice).replace(" ", ""), unparse(b.slice).replace(" ", ""))
    return out


def registries(ctx):
    """The registry dict literals of select_numba_kernels, keyed by role: {role name: {key: function name}}.

    The role names are the conventional ones (assembly_functions_regular, kernel_functions_singular, ...); which local
    dict plays a role is read from what select_numba_kernels returns for the mode (registry_roles)."""
    from .src import dict_literals

    m = ctx.repo.mod(NK)
    fn = m.fn("select_numba_kernels")
    by_local = {}
    for name, d in dict_literals(fn).items():
        by_local[name] = {}
        for k, v in d.items():
            if not isinstance(v, ast.Name):
                raise AnalysisError("registry %s[%r] is not a plain function name" % (name, k))
            if v.id not in m.functions:
                raise AnalysisError("registry %s[%r] names unknown function %s" % (name, k, v.id))
            by_local[name][k] = v.id
    out = {}
    for mode, (a, k, _, _) in registry_roles(ctx).items():
        for role, local in zip(ROLE_NAMES[mode], (a, k)):
            if local not in by_local:
                raise AnalysisError("select_numba_kernels: mode %r returns from `%s`, which is not a dict literal of the function" % (mode, local))
            out[role] = by_local[local]
    return out


def n_params(kernel_type):
    return 1 if kernel_type.startswith("modified_helmholtz") else (0 if kernel_type.startswith("laplace") else 2)


def extract(ctx, fname, singular, nparams, skip_if=(), module=NK, skip_sign=False, signs=None):
    """Return (value at a generic point pair, list of `if p != 0` parameters seen).

    The value is over atoms x*, y*, nx*, ny*, kr/ki or w."""
    m = ctx.repo.mod(module)
    fn = m.fn(fname)
    params = [a.arg for a in fn.args.args]
    if len(params) != 5:
        raise AnalysisError("kernel %s does not have the 5-ary kernel signature" % fname)
    NP = opaque_atom("npoints")
    J = V.atom("J")
    symex.RANGES["J"] = NP
    tp = Arr("Y", "input", ndim=2, shape=[3, NP])
    tn = Arr("NYA", "input", ndim=2, shape=[3, NP])
    if singular:
        xp = Arr("XA", "input", ndim=2, shape=[3, NP])
        trial_n = Tensor((3,), NY)
    else:
        xp = Tensor((3,), X)
        trial_n = tn
    kp = Tensor((nparams,), [KR, KI][:nparams] if nparams == 2 else [W][:nparams])
    args = dict(zip(params, [xp, tp, Tensor((3,), NX), trial_n, kp]))
    it = Interp(m, fn, args, hooks={"globals": GLOBALS, "skip_if": skip_if, "skip_sign": skip_sign})
    r = it.run()
    if signs is not None:
        signs.extend(it.seen_sign_ifs)
    if r is None:
        raise AnalysisError("kernel %s returns nothing" % fname)
    nd = symex._ndim(r)
    if nd == 1 or nd is None:
        val = it.index(r, [J], fn)
        vals = [val]
    elif nd == 2:
        n0 = it.shape_of(r, 0)
        if not isinstance(n0, int):
            raise AnalysisError("kernel %s: leading output dimension not literal" % fname)
        vals = [it.index(r, [d, J], fn) for d in range(n0)]
    else:
        raise AnalysisError("kernel %s: unsupported output rank" % fname)
    env = {}
    for i in range(3):
        env["Y⟨%d,J⟩" % i] = Y[i]
        env["NYA⟨%d,J⟩" % i] = NY[i]
        env["XA⟨%d,J⟩" % i] = X[i]
    vals = [v.subs(env) for v in vals]
    for v in vals:
        bad = [a for a in v.atoms() if "⟨" in a or a.startswith("ι")]
        if bad:
            raise AnalysisError("kernel %s: value depends on other points/indices: %s" % (fname, sorted(bad)[:3]))
    return (vals[0] if len(vals) == 1 else vals), it.seen_param_ifs


def extract_checked(ctx, fname, singular, nparams, module=NK):
    """Extract and check the `if p != 0` fast paths: the skipped path must equal the taken path at p = 0."""
    signs = []
    v, ifs = extract(ctx, fname, singular, nparams, module=module, signs=signs)
    ok = True
    if signs:
        # a guard on the sign of a parameter: the value where the guard fails must be the same expression (two formulas
        # for one analytic kernel that agree on a half-line are identical)
        vo, _ = extract(ctx, fname, singular, nparams, module=module, skip_sign=True)
        same = all(a.eq(b) for a, b in zip(v if isinstance(v, list) else [v], vo if isinstance(vo, list) else [vo]))
        if not same:
            from .core import SignGuard

            fn = ctx.repo.mod(module).fn(fname)
            raise SignGuard(module, fname, fn.lineno, "sign guard: " + "; ".join(t for _, t in signs),
                              "the kernel applies part of its formula only when `%s`: for the other sign of that parameter the value is a different function (%s is analytic in its parameters; "
                              "a factor or term that depends on the parameter cannot be dropped on a half-line)" % ("`, `".join(t for _, t in signs), fname))
    if ifs:
        # each special case on its own: with parameter p taken out (its `!= 0` block skipped / its `== 0` branch taken) the
        # value must equal the general one AT p = 0, for arbitrary values of the other parameters
        vs = v if isinstance(v, list) else [v]
        for p_ in sorted(set(ifs)):
            v0, _ = extract(ctx, fname, singular, nparams, skip_if=(p_,), module=module)
            env = {p_: Poly()}
            v0s = v0 if isinstance(v0, list) else [v0]
            ok = ok and all(a.subs(env).eq(b.subs(env)) for a, b in zip(vs, v0s))
    return v, ifs, ok


# ------------------------------------------------------------------ specs

D3 = [Y[i] - X[i] for i in range(3)]  # y - x
R2 = dot(D3, D3)
DIST = R2.sqrt()
K = KR + I * KI


def spec(kernel_type):
    """Closed forms (Steinbach / Colton-Kress conventions used by the library docs)."""
    fam, layer = split_type(kernel_type)
    if fam == "laplace":
        G = INV4PI / DIST
        dG = -G / DIST  # dG/dr
    elif fam == "helmholtz":
        G = (I * K * DIST).exp() * INV4PI / DIST
        dG = G * (I * K - V.const(1) / DIST)
    elif fam == "modified_helmholtz":
        G = (-(W * DIST)).exp() * INV4PI / DIST
        dG = G * (-W - V.const(1) / DIST)
    else:
        raise AnalysisError("no spec for kernel family " + fam)
    if layer == "single_layer":
        return G
    if layer == "double_layer":  # d/dn_y G = dG/dr * (y-x).n_y / r
        return dG * dot(D3, NY) / DIST
    if layer == "adjoint_double_layer":  # d/dn_x G = dG/dr * (x-y).n_x / r
        return -(dG * dot(D3, NX) / DIST)
    raise AnalysisError("no spec for layer " + layer)


def far_field_spec(layer):
    xy = dot(X, Y)
    e = (-(I * K * xy)).exp() * INV4PI
    if layer == "single_layer":
        return e
    if layer == "double_layer":
        return -(I * K) * dot(X, NY) * e
    raise AnalysisError("no far-field spec for " + layer)


def split_type(kernel_type):
    for fam in ("modified_helmholtz", "helmholtz", "laplace"):
        if kernel_type.startswith(fam + "_"):
            return fam, kernel_type[len(fam) + 1 :]
    raise AnalysisError("unknown kernel family in " + kernel_type)
