"""Finite-domain abstract execution of selector functions.

A *selector* is a function whose result is chosen by if/elif tests on a few string- or integer-valued inputs
(``operator_descriptor.identifier``, ``assembly_type``, ``kind``/``degree`` ...).  ``select`` runs the statement
structure for one concrete assignment of those inputs and reports what is returned or raised.  Tests that mention
anything else are *unknown*; an unknown test that encloses a return/raise is an AnalysisError (the selector is not of
the analysable kind), never a guess.  Rules then quantify over the whole finite domain, so they do not depend on how
the chain of tests is spelled (nested ifs, elif, ``in`` tuples, early returns).
"""

import ast

from .core import AnalysisError
from .src import unparse


class Unknown(Exception):
    pass


class _Ret(Exception):
    def __init__(self, node):
        self.node = node


class _Raise(Exception):
    pass


class _Stop(Exception):
    pass


def value(e, env):
    if isinstance(e, ast.Constant):
        return e.value
    if isinstance(e, (ast.Call, ast.Subscript)) and unparse(e) in env:
        # an abstract predicate / table entry supplied by the caller (isinstance(x, T), len(xs), memo[key], ...)
        return env[unparse(e)]
    if isinstance(e, (ast.Name, ast.Attribute)):
        k = unparse(e)
        if k in env:
            return env[k]
        raise Unknown(k)
    if isinstance(e, (ast.Tuple, ast.Set)):
        return tuple(value(x, env) for x in e.elts)
    if isinstance(e, ast.List):
        return [value(x, env) for x in e.elts]
    if isinstance(e, ast.Slice):
        return slice(*(None if x is None else value(x, env) for x in (e.lower, e.upper, e.step)))
    if isinstance(e, ast.Subscript):
        base = value(e.value, env)
        idx = value(e.slice, env)
        try:
            return base[idx]
        except Exception:
            raise Unknown(unparse(e))
    if isinstance(e, ast.UnaryOp) and isinstance(e.op, ast.USub):
        return -value(e.operand, env)
    if isinstance(e, ast.UnaryOp) and isinstance(e.op, ast.Not):
        return not value(e.operand, env)
    if isinstance(e, ast.Call) and isinstance(e.func, ast.Attribute) and e.func.attr in ("split", "startswith", "endswith", "lower", "upper") and not e.keywords:
        base = value(e.func.value, env)
        if isinstance(base, str):
            return getattr(base, e.func.attr)(*[value(a, env) for a in e.args])
        raise Unknown(unparse(e))
    if isinstance(e, ast.BoolOp):
        vals = []
        unk = None
        for x in e.values:
            try:
                vals.append(bool(value(x, env)))
            except Unknown as u:
                unk = u
                vals.append(None)
        if isinstance(e.op, ast.And):
            if any(v is False for v in vals):
                return False
            if unk:
                raise unk
            return True
        if any(v is True for v in vals):
            return True
        if unk:
            raise unk
        return False
    if isinstance(e, ast.Compare) and len(e.ops) == 1:
        a, b = value(e.left, env), value(e.comparators[0], env)
        op = e.ops[0]
        try:
            if isinstance(op, ast.Eq):
                return a == b
            if isinstance(op, ast.NotEq):
                return a != b
            if isinstance(op, ast.In):
                return a in b
            if isinstance(op, ast.NotIn):
                return a not in b
            if isinstance(op, ast.Is):
                return a is b
            if isinstance(op, ast.IsNot):
                return a is not b
            if isinstance(op, ast.Lt):
                return a < b
            if isinstance(op, ast.LtE):
                return a <= b
            if isinstance(op, ast.Gt):
                return a > b
            if isinstance(op, ast.GtE):
                return a >= b
        except TypeError:
            raise Unknown(unparse(e))
    raise Unknown(unparse(e))


def _decisive(body):
    return any(isinstance(n, (ast.Return, ast.Raise)) for b in body for n in ast.walk(b) if not isinstance(b, (ast.FunctionDef, ast.ClassDef)))


def select(fn, env):
    """('return', node|None) | ('raise', None) for the concrete inputs `env` ({source text of name/attribute: value})."""
    env = dict(env)

    def block(body):
        for st in body:
            if isinstance(st, (ast.FunctionDef, ast.ClassDef, ast.Import, ast.ImportFrom)):
                continue
            if isinstance(st, ast.If):
                try:
                    tv = bool(value(st.test, env))
                except Unknown as u:
                    if _decisive(st.body) or _decisive(st.orelse):
                        raise AnalysisError("%s: result selected under a test the analysis cannot decide: `%s` (unknown: %s)" % (fn.name, unparse(st.test)[:80], u))
                    for n in ast.walk(st):  # whatever the undecided branches assign is unknown afterwards
                        if isinstance(n, ast.Name) and isinstance(n.ctx, ast.Store):
                            env.pop(n.id, None)
                    continue
                block(st.body if tv else st.orelse)
            elif isinstance(st, ast.Assign) and len(st.targets) == 1 and isinstance(st.targets[0], ast.Name):
                # locals computed from the inputs take part in later tests
                try:
                    env[st.targets[0].id] = value(st.value, env)
                except Unknown:
                    env.pop(st.targets[0].id, None)
            elif isinstance(st, ast.Return):
                raise _Ret(st.value)
            elif isinstance(st, ast.Raise):
                raise _Raise()
            elif isinstance(st, (ast.For, ast.While, ast.With, ast.Try)) and _decisive([st]):
                raise AnalysisError("%s: result selected inside a loop/with/try block" % fn.name)

    try:
        block(fn.body)
    except _Ret as r:
        return "return", r.node
    except _Raise:
        return "raise", None
    return "return", None


def reachable_returns(fn, env):
    """Every `return` expression (None for a bare return / falling off the end, "raise" for a raise) some execution of fn
    can reach for the inputs `env`: a test the inputs do not decide is followed both ways.  Straight-line locals are not
    tracked: a name assigned on the way is unknown afterwards."""
    out = []

    def block(body, env):
        """-> True when control can fall out of the end of the block"""
        env = dict(env)
        for st in body:
            if isinstance(st, (ast.FunctionDef, ast.ClassDef, ast.Import, ast.ImportFrom)):
                continue
            if isinstance(st, ast.If):
                try:
                    tv = bool(value(st.test, env))
                    if not block(st.body if tv else st.orelse, env):
                        return False
                except Unknown:
                    a, b = block(st.body, env), block(st.orelse, env)
                    for n in ast.walk(st):
                        if isinstance(n, ast.Name) and isinstance(n.ctx, ast.Store):
                            env.pop(n.id, None)
                    if not (a or b):
                        return False
            elif isinstance(st, ast.Assign) and len(st.targets) == 1 and isinstance(st.targets[0], ast.Name):
                try:
                    env[st.targets[0].id] = value(st.value, env)
                except Unknown:
                    env.pop(st.targets[0].id, None)
            elif isinstance(st, ast.Return):
                out.append(st.value)
                return False
            elif isinstance(st, ast.Raise):
                out.append("raise")
                return False
            elif isinstance(st, (ast.For, ast.While, ast.With, ast.Try)) and _decisive([st]):
                raise AnalysisError("%s: result selected inside a loop/with/try block" % fn.name)
        return True

    if block(fn.body, env):
        out.append(None)
    return out


def effects(body, env, what="block", pinned=()):
    """Abstract execution of a statement list for one assignment of its inputs: the list of effects it performs.

    Effects: ("store", target text, value text) for subscript/attribute stores, ("aug", target text, op, value text),
    ("set", name, value) for scalar locals whose new value is known, ("call", text) for expression statements and
    ("loop", iterable text, [effects of one iteration]) for inner loops (the body is executed once with the loop variable
    unknown).  `env` is updated as by `select`.  A test the inputs do not decide is an AnalysisError when its branches
    have effects."""
    env = dict(env)
    out = []

    def has_effect(stmts):
        return any(isinstance(n, (ast.Assign, ast.AugAssign, ast.Expr, ast.Return, ast.Raise, ast.Break, ast.Continue)) for s in stmts for n in ast.walk(s))

    def block(stmts, sink):
        for st in stmts:
            if isinstance(st, ast.If):
                try:
                    tv = bool(value(st.test, env))
                except Unknown as u:
                    if has_effect(st.body) or has_effect(st.orelse):
                        raise AnalysisError("%s: effects selected under a test the analysis cannot decide: `%s` (unknown: %s)" % (what, unparse(st.test)[:80], u))
                    continue
                block(st.body if tv else st.orelse, sink)
            elif isinstance(st, ast.Assign) and len(st.targets) == 1 and isinstance(st.targets[0], ast.Name):
                name = st.targets[0].id
                if name in pinned:
                    continue  # an input the caller fixes although the code computes it (e.g. a file extension)
                try:
                    env[name] = value(st.value, env)
                    sink.append(("set", name, env[name]))
                except Unknown:
                    env.pop(name, None)
                    sink.append(("set", name, unparse(st.value)))
            elif isinstance(st, ast.Assign):
                for t in st.targets:
                    sink.append(("store", unparse(t), unparse(st.value)))
                    for n in ast.walk(t):
                        if isinstance(n, ast.Name) and isinstance(n.ctx, ast.Store) and n.id not in pinned:
                            env.pop(n.id, None)
            elif isinstance(st, ast.AugAssign):
                sink.append(("aug", unparse(st.target), type(st.op).__name__, unparse(st.value)))
                if isinstance(st.target, ast.Name):
                    env.pop(st.target.id, None)
            elif isinstance(st, ast.For):
                inner = []
                for n in ast.walk(st.target):
                    if isinstance(n, ast.Name):
                        env.pop(n.id, None)
                try:
                    block(st.body, inner)
                except _Stop:
                    pass
                sink.append(("loop", unparse(st.iter), inner))
            elif isinstance(st, ast.Expr) and not isinstance(st.value, ast.Constant):
                sink.append(("call", unparse(st.value)))
            elif isinstance(st, (ast.Break, ast.Continue)):
                # leaves the iteration being executed: nothing after it in this iteration happens
                sink.append((type(st).__name__.lower(),))
                raise _Stop()
            elif isinstance(st, ast.Return):
                sink.append(("return", unparse(st.value) if st.value is not None else None))
                if sink is not out:
                    raise AnalysisError("%s: return inside a loop body is not modelled by the effect analysis" % what)
                raise _Ret(st.value)
            elif isinstance(st, ast.Raise):
                sink.append(("raise",))
                raise _Ret(None)
            elif isinstance(st, (ast.While, ast.With, ast.Try)):
                raise AnalysisError("%s: statement kind the effect analysis does not model: %s" % (what, unparse(st)[:60]))

    try:
        block(body, out)
    except (_Stop, _Ret):
        pass
    return out
