"""Geometry plumbing: the affine element map and its copies."""

from . import assemblers as A
from . import symex
from .alg import V, vsum
from .core import AnalysisError
from .src import arg_names
from .symex import Arr, Interp, Opq, opaque_atom, tov

GRID = "bempp_cl/api/grid/grid.py"
FH = "bempp_cl/api/fmm/helpers.py"


def _affine(grid, e, d, xi):
    """vertices[d, elements[0, e]] + sum_l jacobians[e, d, l] * xi_l"""
    return opaque_atom("%s.vertices" % grid, [d, opaque_atom("%s.elements" % grid, [0, e])]) + vsum(
        opaque_atom("%s.jacobians" % grid, [e, d, l]) * xi[l] for l in range(2)
    )


def local2global_rule(ctx):
    """GridData*.local2global(e, pts)[d, q] and both copies of grid_to_points[n*e + q, d] are the same affine map."""
    r = ctx.rule("GEOM-AFFINE", "GridData.local2global and grid_to_points (grid.py, fmm/helpers.py) are the affine map v0 + J xi with element-major, point-minor layout", 4)
    m = ctx.repo.mod(GRID)
    for cls in ("GridDataDouble", "GridDataFloat"):
        fn = m.fn(cls + ".local2global")
        p = arg_names(fn)
        symex.reset()
        hooks = A.Hooks(ctx, "geom").as_dict()
        N = opaque_atom("#pts")
        symex.RANGES["J"] = N
        pts = Arr("P", "input", ndim=2, shape=[2, N])
        e = opaque_atom("e")
        it = Interp(m, fn, {p[0]: A.Grid("G"), p[1]: e, p[2]: pts}, hooks)
        res = it.run()
        J = V.atom("J")
        xi = [opaque_atom("P", [l, J]) for l in range(2)]
        ok = all(tov(it.index(res, [d, J], fn)).eq(_affine("G", e, d, xi)) for d in range(3))
        r.check(ok, cls + ".local2global", GRID, fn.name, fn.lineno, cls + ".local2global affine map", "local2global is not vertices[:, elements[0, e]] + jacobians[e] @ local_coords")
    for rel in (GRID, FH):
        mm = ctx.repo.mod(rel)
        fn = mm.fn("grid_to_points")
        p = arg_names(fn)
        symex.reset()
        hooks = A.Hooks(ctx, "geom").as_dict()
        N = opaque_atom("#pts")
        pts = Arr("P", "input", ndim=2, shape=[2, N])
        it = Interp(mm, fn, {p[0]: A.Grid("G"), p[1]: pts}, hooks)
        res = it.run()
        if not isinstance(res, Arr):
            raise AnalysisError("grid_to_points does not return its point array")
        ev, qv = symex.fresh("e"), symex.fresh("q")
        ne = opaque_atom("#G.elements/1")
        symex.RANGES[ev], symex.RANGES[qv] = ne, N
        e, q = V.atom(ev), V.atom(qv)
        xi = [opaque_atom("P", [l, q]) for l in range(2)]
        ok = all(it.read(res, [N * e + q, V.const(d)], fn).eq(_affine("G", e, d, xi)) for d in range(3))
        r.check(ok, "%s::grid_to_points" % rel.split("/")[-1], rel, fn.name, fn.lineno, "grid_to_points layout/affine map in " + rel.split("/")[-1],
                "point number n*element + q of grid_to_points is not local2global(element, local point q)")
