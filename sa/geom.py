"""Geometry plumbing: the affine element map and its copies."""

from . import assemblers as A
from . import symex
from .alg import V, vsum
from .core import AnalysisError
from .src import arg_names
from .symex import Arr, Interp, Opq, opaque_atom, tov

GRID = "bempp_cl/api/grid/grid.py"
FH = "bempp_cl/api/fmm/helpers.py"


def _affine(grid, e, d, xi):
    """vertices[d, elements[0, e]] + sum_l jacobians[e, d, l] * xi_l"""
    return opaque_atom("%s.vertices" % grid, [d, opaque_atom("%s.elements" % grid, [0, e])]) + vsum(
        opaque_atom("%s.jacobians" % grid, [e, d, l]) * xi[l] for l in range(2)
    )


def local2global_rule(ctx):
    """GridData*.local2global(e, pts)[d, q] and both copies of grid_to_points[n*e + q, d] are the same affine map."""
    r = ctx.rule("GEOM-AFFINE", "GridData.local2global and grid_to_points (grid.py, fmm/helpers.py) are the affine map v0 + J xi with element-major, point-minor layout", 4)
    m = ctx.repo.mod(GRID)
    for cls in ("GridDataDouble", "GridDataFloat"):
        fn = m.fn(cls + ".local2global")
        p = arg_names(fn)
        symex.reset()
        hooks = A.Hooks(ctx, "geom").as_dict()
        N = opaque_atom("#pts")
        symex.RANGES["J"] = N
        pts = Arr("P", "input", ndim=2, shape=[2, N])
        e = opaque_atom("e")
        it = Interp(m, fn, {p[0]: A.Grid("G"), p[1]: e, p[2]: pts}, hooks)
        res = it.run()
        J = V.atom("J")
        xi = [opaque_atom("P", [l, J]) for l in range(2)]
        ok = all(tov(it.index(res, [d, J], fn)).eq(_affine("G", e, d, xi)) for d in range(3))
        r.check(ok, cls + ".local2global", GRID, fn.name, fn.lineno, cls + ".local2global affine map", "local2global is not vertices[:, elements[0, e]] + jacobians[e] @ local_coords")
    for rel in (GRID, FH):
        mm = ctx.repo.mod(rel)
        fn = mm.fn("grid_to_points")
        p = arg_names(fn)
        symex.reset()
        hooks = A.Hooks(ctx, "geom").as_dict()
        N = opaque_atom("#pts")
        pts = Arr("P", "input", ndim=2, shape=[2, N])
        it = Interp(mm, fn, {p[0]: A.Grid("G"), p[1]: pts}, hooks)
        res = it.run()
        if not isinstance(res, Arr):
            raise AnalysisError("grid_to_points does not return its point array")
        ev, qv = symex.fresh("e"), symex.fresh("q")
        ne = opaque_atom("#G.elements/1")
        symex.RANGES[ev], symex.RANGES[qv] = ne, N
        e, q = V.atom(ev), V.atom(qv)
        xi = [opaque_atom("P", [l, q]) for l in range(2)]
        ok = all(it.read(res, [N * e + q, V.const(d)], fn).eq(_affine("G", e, d, xi)) for d in range(3))
        r.check(ok, "%s::grid_to_points" % rel.split("/")[-1], rel, fn.name, fn.lineno, "grid_to_points layout/affine map in " + rel.split("/")[-1],
                "point number n*element + q of grid_to_points is not local2global(element, local point q)")


def point_cloud(ctx):
    """Grid.map_to_point_cloud(order, local_points): the cloud the Galerkin-tested potentials are evaluated on."""
    import ast

    from . import dispatch
    from .src import unparse

    r = ctx.rule("POINT-CLOUD", "Grid.map_to_point_cloud maps the caller's local points when they are given, otherwise the points of the triangle rule of the given order (the global regular order only when neither is given), through grid_to_points of this grid", 3)
    fn = ctx.repo.mod(GRID).fn("Grid.map_to_point_cloud")
    p = arg_names(fn)
    if len(p) < 3:
        raise AnalysisError("Grid.map_to_point_cloud: signature changed")
    O, L = p[1], p[2]
    body = [s for s in fn.body if not isinstance(s, (ast.Import, ast.ImportFrom)) and not (isinstance(s, ast.Expr) and isinstance(s.value, ast.Constant))]
    ns = lambda t: (t or "").replace(" ", "").replace('"', "'")
    for name, env in (("local points given", {L: "‹pts›", O: None}), ("order given", {L: None, O: 5}), ("neither given", {L: None, O: None})):
        effs = dispatch.effects(body, env, "Grid.map_to_point_cloud")
        ret = [e[1] for e in effs if e[0] == "return"]
        sets = [(e[1], e[2]) for e in effs if e[0] in ("set", "store")]
        okr = len(ret) == 1 and ns(ret[0]).startswith("grid_to_points(self.data(") and ns(ret[0]).endswith(",%s)" % L)
        if name == "local points given":
            ok = okr and not sets
            why = "with local points given the method returns `%s` after assigning %s (expected grid_to_points(self.data(..), the given points), nothing reassigned)" % (ret, sets)
        else:
            pts = [v for t, v in sets if ns(t).strip("()").split(",")[0] == L]
            ords = [v for t, v in sets if t == O]
            ok = okr and [ns(v) for v in pts] == ["rule(%s)" % O] and (name == "order given" and not ords or name == "neither given" and len(ords) == 1 and ns(str(ords[0])).endswith("GLOBAL_PARAMETERS.quadrature.regular"))
            why = "%s: local points are taken from %s, the order is reassigned to %s, the method returns `%s`" % (name, pts, ords, ret)
        r.check(ok, name, GRID, "Grid.map_to_point_cloud", fn.lineno, "point cloud when " + name, why)
