"""Canonical form of the parsed program, applied once when a module of /repo is loaded.

The rules read statements; several spellings of one statement must not look different to them.  This pass rewrites the
tree (positions are kept, nothing is written back) so that every rule sees one spelling:

  accumulation      `t = t + e`, `t = e + t`, `t = t - e`, `t = t * e`, `t = t / e`   ->  `t += e`, ... (t a name or subscript)
  constant operand  `0 != x`, `0 < x`                                                  ->  `x != 0`, `x > 0`
  symmetric compare `b == a` (no constant)                                             ->  operands in text order
  ordering          `b > a`, `b >= a` (no constant)                                    ->  `a < b`, `a <= b`
  negation          `not (not c)` -> `c`;  `not (a == b)` -> `a != b`, likewise != is, is not, in, not in, < <= > >=
  branch polarity   `if not c: A else: B` -> `if c: B else: A`; `if a != b: A else: B` -> `if a == b: B else: A`
                    (likewise `is not`, `not in`, and `<=` / `>=`, which become the strict comparison of the other
                    branch); the same for conditional expressions

All of these are semantics-preserving for the values the library computes with (Python scalars, NumPy scalars and
arrays, identity tests); the comparison negations assume no NaN operand, which holds for the index / count / flag
comparisons the rules read (floating-point kernels compare distances with literals: `dist == 0`, untouched).
tools/eqscan.py generates exactly these rewrites (and others) to measure that the checks stay silent under them.
"""

import ast

_FLIP = {ast.Eq: ast.Eq, ast.NotEq: ast.NotEq, ast.Lt: ast.Gt, ast.LtE: ast.GtE, ast.Gt: ast.Lt, ast.GtE: ast.LtE}
_NEG = {ast.Eq: ast.NotEq, ast.NotEq: ast.Eq, ast.Is: ast.IsNot, ast.IsNot: ast.Is, ast.In: ast.NotIn, ast.NotIn: ast.In,
        ast.Lt: ast.GtE, ast.GtE: ast.Lt, ast.Gt: ast.LtE, ast.LtE: ast.Gt}
_NEGATIVE = (ast.NotEq, ast.IsNot, ast.NotIn, ast.LtE, ast.GtE)  # with an else branch: spelled ==, is, in, <, > instead
_COMM = (ast.Add, ast.Mult)
_AUG = (ast.Add, ast.Sub, ast.Mult, ast.Div)


def _is_const(n):
    return isinstance(n, ast.Constant) or (isinstance(n, ast.UnaryOp) and isinstance(n.op, ast.USub) and isinstance(n.operand, ast.Constant))


def _neg(test):
    """The negation of `test`, spelled without `not` where a single comparison allows it."""
    if isinstance(test, ast.UnaryOp) and isinstance(test.op, ast.Not):
        return test.operand
    if isinstance(test, ast.Compare) and len(test.ops) == 1 and type(test.ops[0]) in _NEG:
        return Canon().visit_Compare(ast.copy_location(ast.Compare(left=test.left, ops=[_NEG[type(test.ops[0])]()], comparators=test.comparators), test))
    return ast.copy_location(ast.UnaryOp(op=ast.Not(), operand=test), test)


def _negative(test):
    return (isinstance(test, ast.UnaryOp) and isinstance(test.op, ast.Not)) or (isinstance(test, ast.Compare) and len(test.ops) == 1 and isinstance(test.ops[0], _NEGATIVE))


class Canon(ast.NodeTransformer):
    def visit_Assign(self, node):
        self.generic_visit(node)
        if len(node.targets) == 1 and isinstance(node.targets[0], (ast.Name, ast.Subscript)) and isinstance(node.value, ast.BinOp) and isinstance(node.value.op, _AUG):
            t = ast.unparse(node.targets[0])
            v = node.value
            rest = None
            if ast.unparse(v.left) == t:
                rest = v.right
            elif isinstance(v.op, _COMM) and ast.unparse(v.right) == t:
                rest = v.left
            if rest is not None:
                tgt = node.targets[0]
                return ast.copy_location(ast.AugAssign(target=tgt, op=v.op, value=rest), node)
        return node

    def visit_Compare(self, node):
        self.generic_visit(node)
        if len(node.ops) != 1 or type(node.ops[0]) not in _FLIP:
            return node
        l, r, op = node.left, node.comparators[0], node.ops[0]
        swap = False
        if _is_const(l) and not _is_const(r):
            swap = True
        elif not _is_const(l) and not _is_const(r):
            if isinstance(op, (ast.Gt, ast.GtE)):
                swap = True
            elif isinstance(op, (ast.Eq, ast.NotEq)) and ast.unparse(r) < ast.unparse(l):
                swap = True
        if swap:
            return ast.copy_location(ast.Compare(left=r, ops=[_FLIP[type(op)]()], comparators=[l]), node)
        return node

    def visit_UnaryOp(self, node):
        self.generic_visit(node)
        if isinstance(node.op, ast.Not):
            o = node.operand
            if isinstance(o, ast.UnaryOp) and isinstance(o.op, ast.Not):
                return o.operand
            if isinstance(o, ast.Compare) and len(o.ops) == 1 and type(o.ops[0]) in _NEG:
                return self.visit_Compare(ast.copy_location(ast.Compare(left=o.left, ops=[_NEG[type(o.ops[0])]()], comparators=o.comparators), o))
        return node

    def visit_If(self, node):
        self.generic_visit(node)
        if node.orelse and _negative(node.test):
            node.test, node.body, node.orelse = _neg(node.test), node.orelse, node.body
        return node

    def visit_IfExp(self, node):
        self.generic_visit(node)
        if _negative(node.test):
            node.test, node.body, node.orelse = _neg(node.test), node.orelse, node.body
        return node


def canonical(tree):
    tree = Canon().visit(tree)
    ast.fix_missing_locations(tree)
    return tree
