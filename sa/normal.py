"""Canonical form of the parsed program, applied once when a module of /repo is loaded.

The rules read statements; several spellings of one statement must not look different to them.  This pass rewrites the
tree (positions are kept, nothing is written back) so that every rule sees one spelling:

  accumulation      `t = t + e`, `t = e + t`, `t = t - e`, `t = t * e`, `t = t / e`   ->  `t += e`, ... (t a name or subscript)
  constant operand  `0 != x`, `0 < x`                                                  ->  `x != 0`, `x > 0`
  symmetric compare `b == a` (no constant)                                             ->  operands in text order
  ordering          `b > a`, `b >= a` (no constant)                                    ->  `a < b`, `a <= b`
  negation          `not (not c)` -> `c`;  `not (a == b)` -> `a != b`, likewise != is, is not, in, not in, < <= > >=
  branch polarity   `if not c: A else: B` -> `if c: B else: A`; `if a != b: A else: B` -> `if a == b: B else: A`
                    (likewise `is not`, `not in`, and `<=` / `>=`, which become the strict comparison of the other
                    branch); the same for conditional expressions
  keyword call      `f(a, y=b)` -> `f(a, b)` when f is a plain function of the same module and the keywords name its
                    next positional parameters
  one-line local    `t = e` followed at once by the simple statement that is the only reader of t (t bound nowhere
                    else)                                                             ->  that statement with e in place of t

All of these are semantics-preserving for the values the library computes with (Python scalars, NumPy scalars and
arrays, identity tests); the comparison negations assume no NaN operand, which holds for the index / count / flag
comparisons the rules read (floating-point kernels compare distances with literals: `dist == 0`, untouched).
tools/eqscan.py generates exactly these rewrites (and others) to measure that the checks stay silent under them.
"""

import ast

_FLIP = {ast.Eq: ast.Eq, ast.NotEq: ast.NotEq, ast.Lt: ast.Gt, ast.LtE: ast.GtE, ast.Gt: ast.Lt, ast.GtE: ast.LtE}
_NEG = {ast.Eq: ast.NotEq, ast.NotEq: ast.Eq, ast.Is: ast.IsNot, ast.IsNot: ast.Is, ast.In: ast.NotIn, ast.NotIn: ast.In,
        ast.Lt: ast.GtE, ast.GtE: ast.Lt, ast.Gt: ast.LtE, ast.LtE: ast.Gt}
_NEGATIVE = (ast.NotEq, ast.IsNot, ast.NotIn, ast.LtE, ast.GtE)  # with an else branch: spelled ==, is, in, <, > instead
_COMM = (ast.Add, ast.Mult)
_AUG = (ast.Add, ast.Sub, ast.Mult, ast.Div)


def _is_const(n):
    return isinstance(n, ast.Constant) or (isinstance(n, ast.UnaryOp) and isinstance(n.op, ast.USub) and isinstance(n.operand, ast.Constant))


def _neg(test):
    """The negation of `test`, spelled without `not` where a single comparison allows it."""
    if isinstance(test, ast.UnaryOp) and isinstance(test.op, ast.Not):
        return test.operand
    if isinstance(test, ast.Compare) and len(test.ops) == 1 and type(test.ops[0]) in _NEG:
        return Canon().visit_Compare(ast.copy_location(ast.Compare(left=test.left, ops=[_NEG[type(test.ops[0])]()], comparators=test.comparators), test))
    return ast.copy_location(ast.UnaryOp(op=ast.Not(), operand=test), test)


def _negative(test):
    return (isinstance(test, ast.UnaryOp) and isinstance(test.op, ast.Not)) or (isinstance(test, ast.Compare) and len(test.ops) == 1 and isinstance(test.ops[0], _NEGATIVE))


class Canon(ast.NodeTransformer):
    def __init__(self, functions=None):
        self.functions = functions or {}  # plain module-level functions: name -> positional parameter names

    def visit_Call(self, node):
        self.generic_visit(node)
        f = node.func
        # a.dot(b) -> a @ b,  x.transpose() -> x.T   (methods of arrays, sparse matrices and linear operators alike)
        # (not on `self`: a class of the repository may define dot / transpose itself, differently from @ / .T)
        if isinstance(f, ast.Attribute) and not node.keywords and not (isinstance(f.value, ast.Name) and f.value.id in ("np", "_np", "numpy", "self")):
            if f.attr == "dot" and len(node.args) == 1 and not isinstance(node.args[0], ast.Starred):
                return ast.copy_location(ast.BinOp(left=f.value, op=ast.MatMult(), right=node.args[0]), node)
            if f.attr == "transpose" and not node.args:
                return ast.copy_location(ast.Attribute(value=f.value, attr="T", ctx=ast.Load()), node)
        # f(a, y=b) -> f(a, b) for a plain function f of the same module whose next positional parameters are the keywords
        if isinstance(node.func, ast.Name) and node.func.id in self.functions and node.keywords and all(k.arg for k in node.keywords) \
                and not any(isinstance(a, ast.Starred) for a in node.args):
            ps = self.functions[node.func.id]
            kw = {k.arg: k.value for k in node.keywords}
            nxt = ps[len(node.args): len(node.args) + len(kw)]
            if len(nxt) == len(kw) and set(nxt) == set(kw):
                node.args = list(node.args) + [kw[p] for p in nxt]
                node.keywords = []
        return node

    def visit_Assign(self, node):
        self.generic_visit(node)
        if len(node.targets) == 1 and isinstance(node.targets[0], (ast.Name, ast.Subscript)) and isinstance(node.value, ast.BinOp) and isinstance(node.value.op, _AUG):
            t = ast.unparse(node.targets[0])
            v = node.value
            rest = None
            if ast.unparse(v.left) == t:
                rest = v.right
            elif isinstance(v.op, _COMM) and ast.unparse(v.right) == t:
                rest = v.left
            if rest is not None:
                tgt = node.targets[0]
                return ast.copy_location(ast.AugAssign(target=tgt, op=v.op, value=rest), node)
        return node

    def visit_Compare(self, node):
        self.generic_visit(node)
        if len(node.ops) != 1 or type(node.ops[0]) not in _FLIP:
            return node
        l, r, op = node.left, node.comparators[0], node.ops[0]
        swap = False
        if _is_const(l) and not _is_const(r):
            swap = True
        elif not _is_const(l) and not _is_const(r):
            if isinstance(op, (ast.Gt, ast.GtE)):
                swap = True
            elif isinstance(op, (ast.Eq, ast.NotEq)) and ast.unparse(r) < ast.unparse(l):
                swap = True
        if swap:
            return ast.copy_location(ast.Compare(left=r, ops=[_FLIP[type(op)]()], comparators=[l]), node)
        return node

    def visit_UnaryOp(self, node):
        self.generic_visit(node)
        if isinstance(node.op, ast.Not):
            o = node.operand
            if isinstance(o, ast.UnaryOp) and isinstance(o.op, ast.Not):
                return o.operand
            if isinstance(o, ast.Compare) and len(o.ops) == 1 and type(o.ops[0]) in _NEG:
                return self.visit_Compare(ast.copy_location(ast.Compare(left=o.left, ops=[_NEG[type(o.ops[0])]()], comparators=o.comparators), o))
        return node

    def visit_If(self, node):
        self.generic_visit(node)
        if node.orelse and _negative(node.test):
            node.test, node.body, node.orelse = _neg(node.test), node.orelse, node.body
        return node

    def visit_IfExp(self, node):
        self.generic_visit(node)
        if _negative(node.test):
            node.test, node.body, node.orelse = _neg(node.test), node.orelse, node.body
        return node


_SIMPLE = (ast.Assign, ast.AugAssign, ast.Return, ast.Expr, ast.AnnAssign)
_SCOPES = (ast.Lambda, ast.ListComp, ast.SetComp, ast.DictComp, ast.GeneratorExp, ast.FunctionDef)


def _inline_once_used(fn):
    """`t = e` immediately followed by a simple statement that is the only reader of t (and t is bound nowhere else in
    the function): the reader gets `e` in place of t and the binding goes.  A local that merely names a sub-expression
    of the next line and the expression written in place are one and the same statement to the rules."""
    loads, stores = {}, {}
    for n in ast.walk(fn):
        if isinstance(n, ast.Name):
            (loads if isinstance(n.ctx, ast.Load) else stores).setdefault(n.id, []).append(n)
    params = {a.arg for a in fn.args.posonlyargs + fn.args.args + fn.args.kwonlyargs}
    declared = {x for s in ast.walk(fn) if isinstance(s, (ast.Global, ast.Nonlocal)) for x in s.names}

    def block(body):
        i = 0
        while i + 1 < len(body):
            st, nx = body[i], body[i + 1]
            if isinstance(st, ast.Assign) and len(st.targets) == 1 and isinstance(st.targets[0], ast.Name) and isinstance(nx, _SIMPLE):
                t = st.targets[0].id
                if t not in params and t not in declared and len(stores.get(t, ())) == 1 and len(loads.get(t, ())) == 1:
                    use = loads[t][0]
                    hidden = {id(y) for x in ast.walk(nx) if isinstance(x, _SCOPES) for y in ast.walk(x)}
                    inside = [x for x in ast.walk(nx) if x is use]
                    is_target = isinstance(nx, ast.AugAssign) and nx.target is use
                    if inside and id(use) not in hidden and not is_target:
                        class _Sub(ast.NodeTransformer):
                            def visit_Name(self, n):
                                return st.value if n is use else n

                        body[i + 1] = _Sub().visit(nx)
                        del body[i]
                        continue
            i += 1
        for s in body:
            for field in ("body", "orelse", "finalbody"):
                sub = getattr(s, field, None)
                if isinstance(sub, list) and sub and isinstance(sub[0], ast.stmt) and not isinstance(s, (ast.FunctionDef, ast.ClassDef)):
                    block(sub)
            if isinstance(s, ast.Try):
                for h in s.handlers:
                    block(h.body)

    block(fn.body)


def canonical(tree):
    for f in ast.walk(tree):
        if isinstance(f, ast.FunctionDef):
            _inline_once_used(f)
    functions = {}
    for f in tree.body:
        if isinstance(f, ast.FunctionDef) and not f.args.vararg and not f.args.posonlyargs:
            functions[f.name] = [a.arg for a in f.args.args]
    tree = Canon(functions).visit(tree)
    ast.fix_missing_locations(tree)
    return tree
