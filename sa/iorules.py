"""C19: value-preservation rules of io.py that are visible in the source (casts, fallback condition)."""

import ast

from . import dispatch, roles
from .core import AnalysisError
from .src import unparse

IO = "bempp_cl/api/grid/io.py"

# what each mesh array may be cast to without losing information the Grid holds (float64 vertices, uint32 indices)
WIDE_INT = {"int32", "uint32", "int64", "uint64"}
WIDE_FLOAT = {"float64"}


def _dtype_literal(node):
    if isinstance(node, ast.Constant) and isinstance(node.value, str):
        return node.value
    if isinstance(node, ast.Attribute) and unparse(node.value) in ("_np", "np", "numpy"):
        return node.attr
    return None


def _kind(text):
    t = text.replace(" ", "")
    if "vertices" in t or ".points" in t:
        return "vertices"
    if "elements" in t or "cells_dict" in t:
        return "elements"
    if "domain_indices" in t or "cell_data_dict" in t:
        return "domain indices"
    return None


def cast_widths(ctx):
    """Every dtype named on the path of vertices / elements / domain indices through export and import_grid."""
    r = ctx.rule("CAST-LOSSLESS", "casts applied to vertices, elements and domain indices on their way to and from meshio keep 64-bit floats / at least 32-bit integers", 4)
    m = ctx.repo.mod(IO)
    for fname in ("export", "import_grid"):
        fn = m.fn(fname)
        defs = roles.Defs(fn)
        for n in ast.walk(fn):
            if not isinstance(n, ast.Call):
                continue
            src = None
            dt = None
            if isinstance(n.func, ast.Attribute) and n.func.attr == "astype" and n.args:
                src, dt = n.func.value, n.args[0]
            else:
                kw = [k.value for k in n.keywords if k.arg == "dtype"]
                if kw and n.args:
                    src, dt = n.args[0], kw[0]
            if src is None:
                continue
            kind = _kind(roles.canon(src, defs))
            if kind is None:
                continue
            lit = _dtype_literal(dt)
            if lit is None:
                raise AnalysisError("%s:%d cast of the %s to a dtype that is not a literal: %s" % (fname, n.lineno, kind, unparse(dt)))
            allowed = WIDE_FLOAT if kind == "vertices" else WIDE_INT
            r.check(lit in allowed, "%s: %s -> %s (line %d)" % (fname, kind, lit, n.lineno), IO, fname, n.lineno, "cast of %s in %s" % (kind, fname),
                    "the %s are cast to %s, which cannot hold what the Grid stores (%s): values change in the file / on import" % (kind, lit, "float64 coordinates" if kind == "vertices" else "uint32 indices"))
    bad = ast.parse("def export(grid):\n    points = grid.vertices.T.astype('float32')\n").body[0]
    c = [n for n in ast.walk(bad) if isinstance(n, ast.Call)][0]
    r.must_fire(_kind(roles.canon(c.func.value, roles.Defs(bad))) == "vertices" and _dtype_literal(c.args[0]) not in WIDE_FLOAT, "vertices written in single precision")


_STATES = {
    # abstract content of the physical tags -> truth of the predicates a fallback test may use
    "absent": None,
    "all zero": {"all0": True, "any0": True, "anyn0": False, "alln0": False},
    "zero and non-zero": {"all0": False, "any0": True, "anyn0": True, "alln0": False},
    "all non-zero": {"all0": False, "any0": False, "anyn0": True, "alln0": True},
}


def _env(var, state):
    if _STATES[state] is None:
        return {var: None}
    p = _STATES[state]
    env = {var: "‹array›"}
    for np_ in ("_np", "np", "numpy"):
        env["%s.all(%s == 0)" % (np_, var)] = p["all0"]
        env["%s.any(%s == 0)" % (np_, var)] = p["any0"]
        env["%s.any(%s != 0)" % (np_, var)] = p["anyn0"]
        env["%s.all(%s != 0)" % (np_, var)] = p["alln0"]
        env["%s.any(%s)" % (np_, var)] = p["anyn0"]
        env["%s.all(%s)" % (np_, var)] = p["alln0"]
        env["%s.count_nonzero(%s) == 0" % (np_, var)] = p["all0"]
    env["(%s == 0).all()" % var] = p["all0"]
    env["(%s == 0).any()" % var] = p["any0"]
    env["(%s != 0).any()" % var] = p["anyn0"]
    env["%s.any()" % var] = p["anyn0"]
    env["not %s.any()" % var] = p["all0"]
    return env


def import_fallback(ctx, keys, var="domain_indices"):
    """The importer may replace the physical tags by another key only when they carry no information."""
    r = ctx.rule("IMPORT-FALLBACK", "import_grid replaces the physical tags by a fallback key only when they are absent or all zero, never when some element carries a non-zero tag", 2)
    imp = ctx.repo.mod(IO).fn("import_grid")
    later = {ln for _, ln in keys[1:]}
    if not later:
        r.ok("no fallback key")
        r.ok("no fallback key (2)")
        return
    found = 0
    for st in ast.walk(imp):
        if isinstance(st, ast.If) and any(getattr(n, "lineno", None) in later and isinstance(n, ast.Assign) for b in st.body for n in ast.walk(b)):
            found += 1
            for state in ("zero and non-zero", "all non-zero"):
                try:
                    taken = bool(dispatch.value(st.test, _env(var, state)))
                except dispatch.Unknown as u:
                    raise AnalysisError("import_grid: fallback to %s guarded by a test the analysis cannot decide: `%s` (unknown: %s)" % (keys[1][0], unparse(st.test), u))
                r.check(not taken, "tags %s" % state, IO, "import_grid", st.lineno, "fallback when tags are " + state,
                        "with physical tags that are %s the importer still replaces them by %r: the exported domain indices do not come back" % (state, keys[1][0]))
    unguarded = [ln for ln in later if not found]
    if unguarded:
        r.check(False, "unguarded fallback", IO, "import_grid", min(unguarded), "unguarded fallback", "the fallback key overwrites the physical tags unconditionally")
    t = ast.parse("domain_indices is None or _np.any(domain_indices == 0)", mode="eval").body
    r.must_fire(bool(dispatch.value(t, _env("domain_indices", "zero and non-zero"))), "fallback whenever some tag is zero")


# ---------------------------------------------------------------- export(): abstract execution of its dispatch


class _Subst(ast.NodeTransformer):
    def __init__(self, sets):
        self.sets = sets
        self.depth = 0

    def visit_Name(self, node):
        v = self.sets.get(node.id)
        if isinstance(v, str) and self.depth < 10:
            self.depth += 1
            try:
                return self.visit(ast.parse(v, mode="eval").body)
            finally:
                self.depth -= 1
        return node


def _resolved(text, sets):
    """Canonical form of an effect's value with the locals assigned on the executed path substituted."""
    node = _Subst(sets).visit(ast.parse(text, mode="eval").body)
    return roles.canon(node, roles._NoDefs()).replace(" ", "")


def _canon(text):
    return roles.canon_text(text).replace(" ", "")


def _export_names(exp):
    """Locals of export() by role: the dicts / format handed to meshio's writer and the file extension."""
    wc = [c for c in ast.walk(exp) if isinstance(c, ast.Call) and unparse(c.func).endswith("write_points_cells")]
    if len(wc) != 1:
        raise AnalysisError("export: expected exactly one meshio write_points_cells call")
    kw = {k.arg: k.value for k in wc[0].keywords}
    pos = dict(zip(("filename", "points", "cells", "point_data", "cell_data"), wc[0].args))
    kw = dict(pos, **kw)
    names = {}
    for role in ("point_data", "cell_data", "file_format"):
        if not isinstance(kw.get(role), ast.Name):
            raise AnalysisError("export: %s is not handed to meshio as a plain local" % role)
        names[role] = kw[role].id
    ext = None
    for st in ast.walk(exp):
        if isinstance(st, ast.Assign) and isinstance(st.value, ast.Call) and unparse(st.value.func).endswith("splitext") and isinstance(st.targets[0], ast.Tuple) and len(st.targets[0].elts) == 2 \
                and isinstance(st.targets[0].elts[1], ast.Name):
            ext = st.targets[0].elts[1].id
    if ext is None:
        raise AnalysisError("export: the file extension is not taken from os.path.splitext(filename)")
    names["extension"] = ext
    return names


_UNKNOWN = object()


def dispatch_unknown():
    return _UNKNOWN


def export_run(exp, ext, data_type, cplx, what):
    """Effects of export() for a file extension, a data type (None: grid export) and real/complex data."""
    body = [s for s in exp.body if not (isinstance(s, ast.Expr) and isinstance(s.value, ast.Constant)) and not isinstance(s, (ast.Import, ast.ImportFrom))]
    p = [a.arg for a in exp.args.args]
    EXT = _export_names(exp)["extension"]
    env = {EXT: ext, "write_binary": True}
    if what == "grid":
        env.update({"grid": "‹grid›", "grid_function": None, "data_type": None})
    elif what == "both":
        env.update({"grid": "‹grid›", "grid_function": "‹gf›", "data_type": data_type})
    else:
        env.update({"grid": None, "grid_function": "‹gf›", "data_type": data_type})
    # abstract predicates over the evaluated data.  Three worlds: real dtype (False); complex dtype with some non-zero
    # imaginary part (True); complex dtype whose imaginary parts all happen to be 0 ("zeroimag" - a complex function
    # stays complex: its file must carry 'real' and 'imag' whatever its values are)
    is_cdtype = cplx in (True, "zeroimag")
    some_imag = cplx is True
    for c in ast.walk(exp):
        if not isinstance(c, ast.Call):
            continue
        f = unparse(c.func).split(".")[-1]
        inner = c.args[0] if c.args else (c.func.value if isinstance(c.func, ast.Attribute) else None)
        inner_f = unparse(inner.func).split(".")[-1] if isinstance(inner, ast.Call) else None
        if f == "iscomplexobj":
            env[unparse(c)] = is_cdtype
        elif f == "isrealobj":
            env[unparse(c)] = not is_cdtype
        elif f == "any" and inner_f == "iscomplex":
            env[unparse(c)] = some_imag
        elif f == "all" and inner_f == "isreal":
            env[unparse(c)] = not some_imag
        elif f == "all" and inner_f == "iscomplex":
            env[unparse(c)] = False if not some_imag else dispatch_unknown()
        elif f == "any" and inner_f == "isreal":
            env[unparse(c)] = True if not some_imag else dispatch_unknown()
    env = {k: v for k, v in env.items() if v is not _UNKNOWN}
    effs = dispatch.effects(body, env, "export", pinned=(EXT,))
    sets = {e[1]: e[2] for e in effs if e[0] == "set"}
    stores = [(e[1], e[2]) for e in effs if e[0] == "store"]
    return effs, sets, stores


def export_dispatch(ctx, first_key):
    r = ctx.rule("EXPORT-DISPATCH", "export(), executed abstractly per (file type, grid / node data / element data, real / complex): .msh files carry the domain indices under the key the importer reads first and use the tag-preserving format; node data become point data and element data cell data (real and imaginary part for complex values) of the transformed evaluation; other data types and ambiguous calls are rejected", 10)
    exp = ctx.repo.mod(IO).fn("export")
    DOM = _canon("grid.domain_indices.reshape((1, -1))")
    NM = _export_names(exp)
    CD, PD, FF = NM["cell_data"], NM["point_data"], NM["file_format"]

    def key_of(target):
        t = ast.parse(target, mode="eval").body
        return (unparse(t.value), t.slice.value) if isinstance(t, ast.Subscript) and isinstance(t.slice, ast.Constant) else (None, None)

    # (1) grid export, Gmsh and other formats
    for ext in (".msh", ".vtu"):
        effs, sets, stores = export_run(exp, ext, None, False, "grid")
        keys = {key_of(t)[1]: _resolved(v, {k: x for k, x in sets.items() if k != "grid"}) for t, v in stores if key_of(t)[0] == CD}
        if ext == ".msh":
            ok = keys.get(first_key) == DOM and sets.get(FF) == "gmsh22"
            msg = "for a .msh file export stores %s under cell-data keys and uses file format %r: the importer reads %r first and needs the Gmsh 2.2 writer to find the domain indices there" % (sorted(k for k in keys if k), sets.get(FF), first_key)
        else:
            ok = first_key not in keys and any(v == DOM for v in keys.values())
            msg = "for a non-Gmsh file export stores %s (Gmsh tag keys in a format that does not know them, or no domain indices at all)" % sorted(k for k in keys if k)
        r.check(ok, "grid export to %s" % ext, IO, "export", exp.lineno, "grid export to " + ext, msg)
        pd = sets.get(PD, None)
        r.check(pd is None or pd == "None", "grid export to %s has no point data" % ext, IO, "export", exp.lineno, "grid export point data", "a pure grid export writes point data `%s`" % pd)
    # (2) grid-function export
    for dt, src in (("node", "evaluate_on_vertices"), ("element", "evaluate_on_element_centers")):
        D = "_transform_array(grid_function.%s(), transformation).T" % src
        for cplx in (True, False, "zeroimag"):
            effs, sets, stores = export_run(exp, ".vtu", dt, cplx, "gf")
            cell = {key_of(t)[1]: _resolved(v, sets) for t, v in stores if key_of(t)[0] == CD}
            data_keys = {k: v for k, v in cell.items() if k in ("real", "imag", "data")}
            pd = sets.get(PD)
            if dt == "node":
                want = {"real": _canon("_np.real(%s)" % D), "imag": _canon("_np.imag(%s)" % D)} if cplx else {"data": _canon(D)}
                got = None
                if isinstance(pd, str) and pd != "None":
                    node = ast.parse(pd, mode="eval").body
                    if isinstance(node, ast.Dict) and all(isinstance(k, ast.Constant) for k in node.keys):
                        rest = {k: v for k, v in sets.items() if k != PD}
                        got = {k.value: _resolved(unparse(v), rest) for k, v in zip(node.keys, node.values)}
                ok = got == want and not data_keys
                msg = "node data (%s): point data are `%s`, expected `%s`; cell-data entries %s" % ("complex" if cplx else "real", got, want, sorted(data_keys))
            else:
                want = {"real": "_np.array([_np.real(%s)])" % D, "imag": "_np.array([_np.imag(%s)])" % D} if cplx else {"data": "_np.array([%s])" % D}
                # cell data are one array per cell block: the list wrapper is part of meshio's layout
                wantc = {k: roles.canon(ast.parse(v, mode="eval").body.args[0], roles._NoDefs()).replace(" ", "") for k, v in want.items()}
                gotc = {}
                for t, v in stores:
                    if key_of(t)[0] == CD and key_of(t)[1] in ("real", "imag", "data"):
                        node = _Subst(sets).visit(ast.parse(v, mode="eval").body)
                        inner = node.args[0] if isinstance(node, ast.Call) and unparse(node.func).split(".")[-1] in ("array", "asarray") and node.args else node
                        gotc[key_of(t)[1]] = roles.canon(inner, roles._NoDefs()).replace(" ", "")
                ok = gotc == wantc and (pd is None or pd == "None")
                msg = "element data (%s): cell data are %s, expected %s; point data `%s`" % ("complex" if cplx else "real", gotc, wantc, pd)
            label = "complex with all imaginary parts 0" if cplx == "zeroimag" else "complex" if cplx else "real"
            r.check(ok, "%s data, %s" % (dt, label), IO, "export", exp.lineno, "export of %s data" % dt, msg.replace("(complex)", "(%s)" % label))
    # (3) rejections
    effs, _, _ = export_run(exp, ".vtu", "face", False, "gf")
    r.check(any(e[0] == "raise" for e in effs), "unknown data type rejected", IO, "export", exp.lineno, "unknown data_type", "data_type='face' is not rejected")
    effs, _, _ = export_run(exp, ".vtu", "node", False, "both")
    r.check(any(e[0] == "raise" for e in effs), "grid and grid function together rejected", IO, "export", exp.lineno, "grid and grid_function", "passing both a grid and a grid function is not rejected")
    bad = ast.parse("def export(filename, grid=None, grid_function=None, data_type=None, transformation=None, write_binary=True):\n    _, extension = os.path.splitext(filename)\n    file_format = None\n"
                    "    if extension != '.msh':\n        gmsh = True\n        file_format = 'gmsh22'\n    else:\n        gmsh = False\n    cell_data = {}\n    point_data = None\n"
                    "    if gmsh:\n        cell_data['gmsh:physical'] = grid.domain_indices.reshape((1, -1))\n    else:\n        cell_data['domain_index'] = grid.domain_indices.reshape((1, -1))\n"
                    "    _meshio.write_points_cells(filename, points, cells, point_data=point_data, cell_data=cell_data, file_format=file_format, binary=write_binary)\n").body[0]
    _, sets, stores = export_run(bad, ".msh", None, False, "grid")
    r.must_fire(not any(key_of(t)[1] == "gmsh:physical" for t, v in stores), "Gmsh tags written for every extension except .msh")
