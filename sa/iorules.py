"""C19: value-preservation rules of io.py that are visible in the source (casts, fallback condition)."""

import ast

from . import dispatch, roles
from .core import AnalysisError
from .src import unparse

IO = "bempp_cl/api/grid/io.py"

# what each mesh array may be cast to without losing information the Grid holds (float64 vertices, uint32 indices)
WIDE_INT = {"int32", "uint32", "int64", "uint64"}
WIDE_FLOAT = {"float64"}


def _dtype_literal(node):
    if isinstance(node, ast.Constant) and isinstance(node.value, str):
        return node.value
    if isinstance(node, ast.Attribute) and unparse(node.value) in ("_np", "np", "numpy"):
        return node.attr
    return None


def _kind(text):
    t = text.replace(" ", "")
    if "vertices" in t or ".points" in t:
        return "vertices"
    if "elements" in t or "cells_dict" in t:
        return "elements"
    if "domain_indices" in t or "cell_data_dict" in t:
        return "domain indices"
    return None


def cast_widths(ctx):
    """Every dtype named on the path of vertices / elements / domain indices through export and import_grid."""
    r = ctx.rule("CAST-LOSSLESS", "casts applied to vertices, elements and domain indices on their way to and from meshio keep 64-bit floats / at least 32-bit integers", 4)
    m = ctx.repo.mod(IO)
    for fname in ("export", "import_grid"):
        fn = m.fn(fname)
        defs = roles.Defs(fn)
        for n in ast.walk(fn):
            if not isinstance(n, ast.Call):
                continue
            src = None
            dt = None
            if isinstance(n.func, ast.Attribute) and n.func.attr == "astype" and n.args:
                src, dt = n.func.value, n.args[0]
            else:
                kw = [k.value for k in n.keywords if k.arg == "dtype"]
                if kw and n.args:
                    src, dt = n.args[0], kw[0]
            if src is None:
                continue
            kind = _kind(roles.canon(src, defs))
            if kind is None:
                continue
            lit = _dtype_literal(dt)
            if lit is None:
                raise AnalysisError("%s:%d cast of the %s to a dtype that is not a literal: %s" % (fname, n.lineno, kind, unparse(dt)))
            allowed = WIDE_FLOAT if kind == "vertices" else WIDE_INT
            r.check(lit in allowed, "%s: %s -> %s (line %d)" % (fname, kind, lit, n.lineno), IO, fname, n.lineno, "cast of %s in %s" % (kind, fname),
                    "the %s are cast to %s, which cannot hold what the Grid stores (%s): values change in the file / on import" % (kind, lit, "float64 coordinates" if kind == "vertices" else "uint32 indices"))
    bad = ast.parse("def export(grid):\n    points = grid.vertices.T.astype('float32')\n").body[0]
    c = [n for n in ast.walk(bad) if isinstance(n, ast.Call)][0]
    r.must_fire(_kind(roles.canon(c.func.value, roles.Defs(bad))) == "vertices" and _dtype_literal(c.args[0]) not in WIDE_FLOAT, "vertices written in single precision")


_STATES = {
    # abstract content of the physical tags -> truth of the predicates a fallback test may use
    "absent": None,
    "all zero": {"all0": True, "any0": True, "anyn0": False, "alln0": False},
    "zero and non-zero": {"all0": False, "any0": True, "anyn0": True, "alln0": False},
    "all non-zero": {"all0": False, "any0": False, "anyn0": True, "alln0": True},
}


def _env(var, state):
    if _STATES[state] is None:
        return {var: None}
    p = _STATES[state]
    env = {var: "‹array›"}
    for np_ in ("_np", "np", "numpy"):
        env["%s.all(%s == 0)" % (np_, var)] = p["all0"]
        env["%s.any(%s == 0)" % (np_, var)] = p["any0"]
        env["%s.any(%s != 0)" % (np_, var)] = p["anyn0"]
        env["%s.all(%s != 0)" % (np_, var)] = p["alln0"]
        env["%s.any(%s)" % (np_, var)] = p["anyn0"]
        env["%s.all(%s)" % (np_, var)] = p["alln0"]
        env["%s.count_nonzero(%s) == 0" % (np_, var)] = p["all0"]
    env["(%s == 0).all()" % var] = p["all0"]
    env["(%s == 0).any()" % var] = p["any0"]
    env["(%s != 0).any()" % var] = p["anyn0"]
    env["%s.any()" % var] = p["anyn0"]
    env["not %s.any()" % var] = p["all0"]
    return env


def import_fallback(ctx, keys):
    """The importer may replace the physical tags by another key only when they carry no information."""
    r = ctx.rule("IMPORT-FALLBACK", "import_grid replaces the physical tags by a fallback key only when they are absent or all zero, never when some element carries a non-zero tag", 2)
    imp = ctx.repo.mod(IO).fn("import_grid")
    later = {ln for _, ln in keys[1:]}
    if not later:
        r.ok("no fallback key")
        r.ok("no fallback key (2)")
        return
    found = 0
    for st in ast.walk(imp):
        if isinstance(st, ast.If) and any(getattr(n, "lineno", None) in later and isinstance(n, ast.Assign) for b in st.body for n in ast.walk(b)):
            found += 1
            for state in ("zero and non-zero", "all non-zero"):
                try:
                    taken = bool(dispatch.value(st.test, _env("domain_indices", state)))
                except dispatch.Unknown as u:
                    raise AnalysisError("import_grid: fallback to %s guarded by a test the analysis cannot decide: `%s` (unknown: %s)" % (keys[1][0], unparse(st.test), u))
                r.check(not taken, "tags %s" % state, IO, "import_grid", st.lineno, "fallback when tags are " + state,
                        "with physical tags that are %s the importer still replaces them by %r: the exported domain indices do not come back" % (state, keys[1][0]))
    unguarded = [ln for ln in later if not found]
    if unguarded:
        r.check(False, "unguarded fallback", IO, "import_grid", min(unguarded), "unguarded fallback", "the fallback key overwrites the physical tags unconditionally")
    t = ast.parse("domain_indices is None or _np.any(domain_indices == 0)", mode="eval").body
    r.must_fire(bool(dispatch.value(t, _env("domain_indices", "zero and non-zero"))), "fallback whenever some tag is zero")
