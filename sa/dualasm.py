"""C10: assembly of the DUAL1 coefficient matrix (which entry goes where) around the tables DUAL1-DOFS / DUAL1-VALUES check.

Each of the three sections (barycentre, edge midpoints, vertices) of the filling loop writes, per barycentric dof n of
the list selected for the sub-triangles of coarse element X:

    bary_dofs[count] = 18 * (position of X in the support) + n,  coarse_dofs[count] = the coarse dof,
    values[count] = the section's nodal value,  then count += 1,

only when X is in the coarse support; for the edge / vertex sections X is a neighbour of the dof's element across the
edge / at the vertex, and the dof list is the row i of the table with  element_edges[i][X] == edge  (elements[i][X] ==
vertex), i.e. the neighbour's *own* local number of the shared entity.
"""

import ast

from . import roles
from .core import AnalysisError
from .src import unparse

DS = "bempp_cl/api/space/scalar_dual_spaces.py"


def analyse(fn):
    defs = roles.Defs(fn)
    out = []
    coo = [c for c in ast.walk(fn) if isinstance(c, ast.Call) and unparse(c.func).split(".")[-1] == "coo_matrix" and c.args and isinstance(c.args[0], ast.Tuple)]
    if len(coo) != 1:
        raise AnalysisError("dual1: coo_matrix((values, (rows, cols)), ...) call not found")
    t = coo[0].args[0]
    if not (len(t.elts) == 2 and isinstance(t.elts[1], ast.Tuple) and len(t.elts[1].elts) == 2 and all(isinstance(x, ast.Name) for x in [t.elts[0]] + t.elts[1].elts)):
        raise AnalysisError("dual1: coo_matrix data is not (values, (rows, cols)) of local arrays")
    VAL, ROW, COL = t.elts[0].id, t.elts[1].elts[0].id, t.elts[1].elts[1].id
    loops = [l for l in fn.body if isinstance(l, ast.For) and any(isinstance(s, ast.Assign) and isinstance(s.targets[0], ast.Subscript) and unparse(s.targets[0].value) == VAL for s in ast.walk(l))]
    if len(loops) != 1 or not isinstance(loops[0].target, ast.Name):
        raise AnalysisError("dual1: the loop filling the coefficient arrays was not found")
    outer = loops[0]
    DOF = outer.target.id
    # the coarse support mask: the array set True at <coarse space>.support_elements (by role, not by name)
    masks = {unparse(s.targets[0].value) for s in fn.body if isinstance(s, ast.Assign) and isinstance(s.targets[0], ast.Subscript) and isinstance(s.targets[0].value, ast.Name)
             and unparse(s.targets[0].slice).endswith(".support_elements") and isinstance(s.value, ast.Constant) and s.value.value is True}
    if len(masks) != 1:
        raise AnalysisError("dual1: the coarse support mask (set True at <coarse space>.support_elements) was not found")
    SUPP = masks.pop()
    KEEP = tuple({n.id for n in ast.walk(fn) if isinstance(n, ast.Name)})
    S = roles.stores(outer.body, defs, keep=KEEP, lv=False)
    st = {a: [s for s in S if s.op == "=" and isinstance(s.tnode, ast.Subscript) and unparse(s.tnode.value) == a] for a in (VAL, ROW, COL)}
    out.append(("three sections", all(len(v) == 3 for v in st.values()), "the coefficient arrays are filled at %s places each, expected 3 (barycentre, edges, vertices)" % {k: len(v) for k, v in st.items()}, outer.lineno))
    if not all(len(v) == 3 for v in st.values()):
        return out
    incs = [s for s in S if s.op == "Add=" and isinstance(s.tnode, ast.Name) and s.value == "1"]
    cnts = {s.target for s in incs}
    if len(cnts) != 1:
        out.append(("one entry counter", False, "entries are counted by %s" % sorted(cnts), outer.lineno))
        return out
    CNT = cnts.pop()
    init0 = any(isinstance(x, ast.Assign) and unparse(x.targets[0]) == CNT and isinstance(x.value, ast.Constant) and x.value.value == 0 and x.lineno < outer.lineno for x in fn.body)
    out.append(("entry counter starts at 0", init0, "the entry counter `%s` is not reset to 0 before the filling loop" % CNT, outer.lineno))
    # the element of the dof
    pairs = {s.target for s in S if s.op == "=" and isinstance(s.tnode, ast.Name) and not s.loops and not s.guards and s.value.replace(" ", "").endswith(".global2local[%s]" % DOF)}
    el = [s for s in S if s.op == "=" and isinstance(s.tnode, ast.Name) and not s.loops and not s.guards
          and (s.value.replace(" ", "").endswith(".global2local[%s][0][0]" % DOF) or s.value.replace(" ", "") in {"%s[0][0]" % p for p in pairs})]
    if len(el) != 1:
        out.append(("element of the coarse dof", False, "no local holds the element <space>.global2local[dof][0][0] of the coarse dof", outer.lineno))
        return out
    EL = el[0].target
    for vs in st[VAL]:
        key = (vs.loops, vs.guards)
        rs = [s for s in st[ROW] if (s.loops, s.guards) == key]
        cs = [s for s in st[COL] if (s.loops, s.guards) == key]
        ic = [s for s in incs if (s.loops, s.guards) == key]
        sec = "section with value `%s`" % unparse(vs.vnode)
        ok = len(rs) == 1 and len(cs) == 1 and len(ic) == 1
        out.append((sec + ": one row / column / value store and one counter step", ok, "row stores %d, column stores %d, counter steps %d at the value store's position" % (len(rs), len(cs), len(ic)), vs.node.lineno))
        if not ok:
            continue
        r_, c_, i_ = rs[0], cs[0], ic[0]
        idx_ok = all(unparse(s.tnode.slice) == CNT for s in (vs, r_, c_))
        out.append((sec + ": entries written at the counter", idx_ok, "the three arrays are written at %s, expected [%s]" % ([unparse(s.tnode.slice) for s in (vs, r_, c_)], CNT), vs.node.lineno))
        after = i_.node.lineno > max(s.node.lineno for s in (vs, r_, c_))
        out.append((sec + ": counter advanced after the entry is written", after, "the counter is advanced before the entry is complete", i_.node.lineno))
        out.append((sec + ": column is the coarse dof", unparse(c_.vnode) == DOF, "the column index is `%s`, expected the coarse dof `%s`" % (unparse(c_.vnode), DOF), c_.node.lineno))
        # row = 18 * position(X) + n with n the innermost loop variable
        inner = vs.loops[-1] if vs.loops else None
        N = inner.target.id if inner is not None and isinstance(inner.target, ast.Name) else None
        rv = r_.vnode
        row_ok = False
        FACE = None
        if N and isinstance(rv, ast.BinOp) and isinstance(rv.op, ast.Add):
            for a, b in ((rv.left, rv.right), (rv.right, rv.left)):
                if isinstance(b, ast.Name) and b.id == N:
                    fac, names = 1, []
                    stack = [a]
                    good = True
                    while stack:
                        x = stack.pop()
                        if isinstance(x, ast.BinOp) and isinstance(x.op, ast.Mult):
                            stack += [x.left, x.right]
                        elif isinstance(x, ast.Constant) and isinstance(x.value, int):
                            fac *= x.value
                        elif isinstance(x, ast.Name):
                            names.append(x.id)
                        else:
                            good = False
                    if good and fac == 18 and len(names) == 1:
                        row_ok, FACE = True, names[0]
        out.append((sec + ": row = 18 * (position of the element in the support) + dof", row_ok, "the row index is `%s`, expected 18 * <position> + <barycentric dof of the list>" % unparse(rv), r_.node.lineno))
        if not row_ok:
            continue
        # position and support test refer to the same element X
        fdefs = [s for s in S if s.op == "=" and isinstance(s.tnode, ast.Name) and s.target == FACE and s.node.lineno < r_.node.lineno and all(l in vs.loops for l in s.loops)]
        fd = max(fdefs, key=lambda s: s.node.lineno) if fdefs else None
        X = None
        if fd is not None and isinstance(fd.vnode, ast.Subscript) and isinstance(fd.vnode.slice, ast.Name):
            X = fd.vnode.slice.id
        posmap = unparse(fd.vnode.value) if X else None
        okpos = False
        if X:
            d = defs.lookup(posmap, fd.node.lineno) if posmap else None
            okpos = posmap is not None and _is_position_map(fn, posmap)
            guard = (roles.expect("S[X]", defs, fd.node.lineno, keep=KEEP, lv=False, S=SUPP, X=X), True)
            okg = guard in fd.guards
            out.append((sec + ": position looked up for an element of the support", okpos and okg,
                        "position `%s` (a position map of the support: %s) is used under guards %s, expected a test that element `%s` is in the coarse support" % (unparse(fd.vnode), okpos, [g[0][:40] for g in fd.guards], X), fd.node.lineno))
        else:
            out.append((sec + ": position looked up for an element of the support", False, "the position `%s` is not read from the support's position map" % FACE, r_.node.lineno))
            continue
        # which element X is, and which list the dofs come from
        if len(vs.loops) == 1:
            out.append((sec + ": element is the dof's own element", X == EL, "the barycentre entries address element `%s`, expected the dof's element `%s`" % (X, EL), fd.node.lineno))
        else:
            nb = [l for l in vs.loops if isinstance(l.target, ast.Name) and l.target.id == X]
            okn = len(nb) == 1
            ent = None
            if okn:
                it = roles.canon(nb[0].iter, defs, keep=tuple(k for k in KEEP if k != unparse(nb[0].iter))).replace(" ", "")
                if ".edge_neighbors[" in it:
                    ent = "edge"
                elif ".vertex_neighbors.indices[" in it:
                    ent = "vertex"
            out.append((sec + ": element is a neighbour across the entity", ent is not None, "element `%s` does not run over the edge / vertex neighbours of the dof's element" % X, fd.node.lineno))
            # row selection: for i, dofs in enumerate(TABLE): if <table of the neighbour>[i][X] == entity
            en = [l for l in vs.loops if isinstance(l.target, ast.Tuple) and len(l.target.elts) == 2 and unparse(l.iter).startswith("enumerate(")]
            sel_ok = False
            if len(en) == 1 and inner is not None and isinstance(inner.iter, ast.Name) and inner.iter.id == en[0].target.elts[1].id:
                I = en[0].target.elts[0].id
                table = "element_edges" if ent == "edge" else "elements"
                gtxt = [g for g in vs.guards if g[1] is True and ("%s[%s][%s]" % (table, I, X)) in g[0].replace(" ", "").replace("(", "").replace(")", "")]
                sel_ok = bool(gtxt) and "Eq" in gtxt[0][0] and "NotEq" not in gtxt[0][0]
            out.append((sec + ": dof list selected by the neighbour's own local number of the shared entity", sel_ok,
                        "the list of barycentric dofs is not chosen by `<grid>.%s[i][%s] == <entity>` over the rows i of the table" % ("element_edges" if ent == "edge" else "elements", X), vs.node.lineno))
    return out


def _is_position_map(fn, name):
    """`name = {j: i for i, j in enumerate(<support list>)}`"""
    for st in ast.walk(fn):
        if isinstance(st, ast.Assign) and unparse(st.targets[0]) == name and isinstance(st.value, ast.DictComp) and len(st.value.generators) == 1:
            g = st.value.generators[0]
            if isinstance(g.target, ast.Tuple) and len(g.target.elts) == 2 and unparse(g.iter).startswith("enumerate("):
                i, j = (unparse(x) for x in g.target.elts)
                return unparse(st.value.key) == j and unparse(st.value.value) == i
    return False


def dual1_assembly(ctx):
    r = ctx.rule("DUAL1-ASSEMBLY", "DUAL1 coefficient matrix: per section one (row, column, value) entry at the running counter, row 18 * position of the addressed element + barycentric dof, column the coarse dof, only for elements of the support, the dof list chosen by the neighbour's own local number of the shared edge / vertex", 25)
    fn = ctx.repo.mod(DS).fn("dual1_function_space")
    for inst, ok, msg, line in analyse(fn):
        r.check(ok, inst, DS, "dual1_function_space", line, inst, msg)
    bad = ast.parse(_POSITIVE).body[0]
    good = ast.parse(_POSITIVE.replace("coarse_dofs[count] = element_index  # defect", "coarse_dofs[count] = d")).body[0]
    r.must_fire(any(not ok for _, ok, _, _ in analyse(bad)) and all(ok for _, ok, _, _ in analyse(good)), "column index is the element instead of the coarse dof")


_POSITIVE = '''
def f(grid, coarse_space, coarse_support, support_elements):
    coarse_support[coarse_space.support_elements] = True
    support_numbers = {j: i for i, j in enumerate(support_elements)}
    count = 0
    for d in range(coarse_space.global_dof_count):
        local_dofs = coarse_space.global2local[d]
        element_index = local_dofs[0][0]
        if coarse_support[element_index]:
            face_n = support_numbers[element_index]
            for n in [2, 4, 8, 10, 14, 16]:
                bary_dofs[count] = 6 * 3 * face_n + n
                coarse_dofs[count] = element_index  # defect
                values[count] = 1
                count += 1
        for e in range(3):
            edge = coarse_space.grid.element_edges[e][element_index]
            for neighbour in coarse_space.grid.edge_neighbors[edge]:
                if coarse_support[neighbour]:
                    face_n = support_numbers[neighbour]
                    for i, dofs in enumerate([[1, 5], [13, 17], [7, 11]]):
                        if coarse_space.grid.element_edges[i][neighbour] == edge:
                            for n in dofs:
                                bary_dofs[count] = 18 * face_n + n
                                coarse_dofs[count] = d
                                values[count] = 0.5
                                count += 1
                            break
        for v in range(3):
            vertex = coarse_space.grid.elements[v][element_index]
            for neighbour in coarse_space.grid.vertex_neighbors.indices[s:t]:
                if coarse_support[neighbour]:
                    face_n = support_numbers[neighbour]
                    for i, dofs in enumerate([[0, 15], [3, 6], [9, 12]]):
                        if coarse_space.grid.elements[i][neighbour] == vertex:
                            for n in dofs:
                                bary_dofs[count] = 18 * face_n + n
                                coarse_dofs[count] = d
                                values[count] = 1 / nc
                                count += 1
                            break
    return coo_matrix((values, (bary_dofs, coarse_dofs)), shape=(3, 3))
'''
