"""C15: positional arguments of the solver dispatchers reach the parameter of the same name.

`gmres(A, b, tol, restart, maxiter, ...)` forwards its arguments positionally to `_gmres_single_op_imp` /
`_gmres_block_op_imp`; `lu` to its helpers.  When a plain name is passed positionally to a function of the same module
that has a parameter of exactly that name at *another* position, the value lands in the wrong parameter (restart and
maxiter exchanged: the iteration runs with the wrong limits and reports counts of another iteration).  The rule is the
classic swapped-argument check, restricted to calls whose callee is defined in the same module and to argument names
that are parameter names of the callee.
"""

import ast

from .core import AnalysisError
from .src import arg_names, unparse

FILES = ["bempp_cl/api/linalg/iterative_solvers.py", "bempp_cl/api/linalg/direct_solvers.py"]


def mismatches(tree):
    fns = {n.name: n for n in tree.body if isinstance(n, ast.FunctionDef)}
    out, judged = [], 0
    for caller in fns.values():
        for c in ast.walk(caller):
            if not (isinstance(c, ast.Call) and isinstance(c.func, ast.Name) and c.func.id in fns and c.func.id != caller.name):
                continue
            params = arg_names(fns[c.func.id])
            for pos, a in enumerate(c.args):
                if isinstance(a, ast.Starred) or pos >= len(params):
                    continue
                if isinstance(a, ast.Name) and a.id in params:
                    judged += 1
                    if params[pos] != a.id:
                        out.append((caller.name, c.func.id, c.lineno, a.id, pos, params[pos]))
            for k in c.keywords:
                if k.arg and isinstance(k.value, ast.Name) and k.value.id in params and k.arg in params:
                    judged += 1
                    if k.arg != k.value.id:
                        out.append((caller.name, c.func.id, c.lineno, k.value.id, k.arg, k.arg))
    return judged, out


def repo_argument_binding(ctx, rule_id="ARG-NAME-BINDING"):
    """The same check over every module of the package (same-module callees only): an argument named like a parameter of
    the callee reaches that parameter.  352 forwarded names, no exception on the reviewed tree."""
    r = ctx.rule(rule_id, "package-wide: a plain name passed to a function of the same module that has a parameter of that name lands in that parameter (no two forwarded values are exchanged)", 1)
    total, n = 0, 0
    for rel in ctx.repo.py_files("bempp_cl"):
        m = ctx.repo.mod(rel)
        judged, bad = mismatches(m.tree)
        total += judged
        for caller, callee, line, name, pos, par in bad:
            n += 1
            r.fail("%s: %s -> %s: %s" % (rel.rsplit("/", 1)[-1], caller, callee, name), rel, caller, line, "argument `%s` of %s(...) in %s" % (name, callee, caller),
                   "`%s` is passed to %s at position %s, where the callee expects `%s`" % (name, callee, pos, par))
    if total < 300:
        raise AnalysisError("argument binding: only %d forwarded names found in the package" % total)
    if not n:
        r.ok("%d forwarded names" % total)
    bad = ast.parse("def imp(a, parameters, device_interface):\n    pass\n\ndef f(a, parameters, device_interface):\n    return imp(a, device_interface, parameters)\n")
    r.must_fire(len(mismatches(bad)[1]) == 2, "parameters and device_interface exchanged")


def solver_argument_binding(ctx):
    r = ctx.rule("SOLVER-ARG-BINDING", "solver dispatchers: a name passed to an implementation function of the same module lands in the parameter of that name (tol, restart, maxiter, use_strong_form, return_residuals, return_iteration_count are not exchanged)", 2)
    total = 0
    for rel in FILES:
        m = ctx.repo.mod(rel)
        judged, bad = mismatches(m.tree)
        total += judged
        if not bad:
            r.ok("%s (%d forwarded names)" % (rel.rsplit("/", 1)[-1], judged))
        for caller, callee, line, name, pos, par in bad:
            r.fail("%s -> %s: %s" % (caller, callee, name), rel, caller, line, "argument `%s` of %s(...) in %s" % (name, callee, caller),
                   "`%s` is passed to %s at position %s, where the callee expects `%s`: the two values are exchanged" % (name, callee, pos, par))
    if total < 10:
        raise AnalysisError("argument binding: only %d forwarded names found in the solver modules" % total)
    bad = ast.parse("def imp(A, b, tol, maxiter, restart):\n    pass\n\ndef gmres(A, b, tol, restart, maxiter):\n    return imp(A, b, tol, restart, maxiter)\n")
    r.must_fire(len(mismatches(bad)[1]) == 2, "restart and maxiter exchanged between dispatcher and implementation")
