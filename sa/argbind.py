"""C15: positional arguments of the solver dispatchers reach the parameter of the same name.

`gmres(A, b, tol, restart, maxiter, ...)` forwards its arguments positionally to `_gmres_single_op_imp` /
`_gmres_block_op_imp`; `lu` to its helpers.  When a plain name is passed positionally to a function of the same module
that has a parameter of exactly that name at *another* position, the value lands in the wrong parameter (restart and
maxiter exchanged: the iteration runs with the wrong limits and reports counts of another iteration).  The rule is the
classic swapped-argument check, restricted to calls whose callee is defined in the same module and to argument names
that are parameter names of the callee.
"""

import ast

from .core import AnalysisError
from .src import arg_names, unparse

FILES = ["bempp_cl/api/linalg/iterative_solvers.py", "bempp_cl/api/linalg/direct_solvers.py"]


def mismatches(tree):
    fns = {n.name: n for n in tree.body if isinstance(n, ast.FunctionDef)}
    out, judged = [], 0
    for caller in fns.values():
        for c in ast.walk(caller):
            if not (isinstance(c, ast.Call) and isinstance(c.func, ast.Name) and c.func.id in fns and c.func.id != caller.name):
                continue
            params = arg_names(fns[c.func.id])
            for pos, a in enumerate(c.args):
                if isinstance(a, ast.Starred) or pos >= len(params):
                    continue
                if isinstance(a, ast.Name) and a.id in params:
                    judged += 1
                    if params[pos] != a.id:
                        out.append((caller.name, c.func.id, c.lineno, a.id, pos, params[pos]))
            for k in c.keywords:
                if k.arg and isinstance(k.value, ast.Name) and k.value.id in params and k.arg in params:
                    judged += 1
                    if k.arg != k.value.id:
                        out.append((caller.name, c.func.id, c.lineno, k.value.id, k.arg, k.arg))
    return judged, out


def repo_argument_binding(ctx, rule_id="ARG-NAME-BINDING"):
    """The same check over every module of the package (same-module callees only): an argument named like a parameter of
    the callee reaches that parameter.  352 forwarded names, no exception on the reviewed tree."""
    r = ctx.rule(rule_id, "package-wide: a plain name passed to a function of the same module that has a parameter of that name lands in that parameter (no two forwarded values are exchanged)", 1)
    total, n = 0, 0
    for rel in ctx.repo.py_files("bempp_cl"):
        m = ctx.repo.mod(rel)
        judged, bad = mismatches(m.tree)
        total += judged
        for caller, callee, line, name, pos, par in bad:
            n += 1
            r.fail("%s: %s -> %s: %s" % (rel.rsplit("/", 1)[-1], caller, callee, name), rel, caller, line, "argument `%s` of %s(...) in %s" % (name, callee, caller),
                   "`%s` is passed to %s at position %s, where the callee expects `%s`" % (name, callee, pos, par))
    if total < 300:
        raise AnalysisError("argument binding: only %d forwarded names found in the package" % total)
    if not n:
        r.ok("%d forwarded names" % total)
    bad = ast.parse("def imp(a, parameters, device_interface):\n    pass\n\ndef f(a, parameters, device_interface):\n    return imp(a, device_interface, parameters)\n")
    r.must_fire(len(mismatches(bad)[1]) == 2, "parameters and device_interface exchanged")


def solver_argument_binding(ctx):
    r = ctx.rule("SOLVER-ARG-BINDING", "solver dispatchers: a name passed to an implementation function of the same module lands in the parameter of that name (tol, restart, maxiter, use_strong_form, return_residuals, return_iteration_count are not exchanged)", 2)
    total = 0
    for rel in FILES:
        m = ctx.repo.mod(rel)
        judged, bad = mismatches(m.tree)
        total += judged
        if not bad:
            r.ok("%s (%d forwarded names)" % (rel.rsplit("/", 1)[-1], judged))
        for caller, callee, line, name, pos, par in bad:
            r.fail("%s -> %s: %s" % (caller, callee, name), rel, caller, line, "argument `%s` of %s(...) in %s" % (name, callee, caller),
                   "`%s` is passed to %s at position %s, where the callee expects `%s`: the two values are exchanged" % (name, callee, pos, par))
    if total < 10:
        raise AnalysisError("argument binding: only %d forwarded names found in the solver modules" % total)
    bad = ast.parse("def imp(A, b, tol, maxiter, restart):\n    pass\n\ndef gmres(A, b, tol, restart, maxiter):\n    return imp(A, b, tol, restart, maxiter)\n")
    r.must_fire(len(mismatches(bad)[1]) == 2, "restart and maxiter exchanged between dispatcher and implementation")


# (caller, callee, parameter): reviewed sites where the value is deliberately not passed on
NOT_FORWARDED = {
    # the coarse DP0 space is built only for its support / dof numbering; both options have no effect on DP0 spaces, and
    # dual1_function_space itself warns that include_boundary_dofs is ignored
    ("dual1_function_space", "p0_discontinuous_function_space", "include_boundary_dofs"),
    ("dual1_function_space", "p0_discontinuous_function_space", "truncate_at_segment_edge"),
}


def dropped(repo):
    """(judged, [(rel, caller, line, callee, parameter)]): optional parameters of a callee that the caller also has under
    the same name but does not pass on.  Callees: functions of the same module, and `super().<same method>` with the
    base class defined in the package."""
    classes = {}
    mods = [repo.mod(rel) for rel in repo.py_files("bempp_cl")]
    for m in mods:
        for cn in m.classes:
            classes.setdefault(cn, []).append(m)
    judged, out = 0, []
    byrel = {m.rel: m for m in mods}

    def aliases_of(m, caller):
        al = dict(m.aliases)
        for n in ast.walk(caller):
            if isinstance(n, ast.ImportFrom):
                for a in n.names:
                    al[a.asname or a.name] = ("." * n.level) + (n.module or "") + "." + a.name
            elif isinstance(n, ast.Import):
                for a in n.names:
                    al[a.asname or a.name.split(".")[0]] = a.name
        return al

    def resolve(rel, dotted):
        if dotted.startswith("."):
            lvl = len(dotted) - len(dotted.lstrip("."))
            base = rel.split("/")[:-1]
            parts = base[: len(base) - (lvl - 1)] + [x for x in dotted.lstrip(".").split(".") if x]
        else:
            parts = dotted.split(".")
        for k in (len(parts), len(parts) - 1):
            if k > 0:
                for f in ("/".join(parts[:k]) + ".py", "/".join(parts[:k]) + "/__init__.py"):
                    if f in byrel:
                        return f, parts[k:]
        return None, None

    def judge(rel, qn, caller, c, callee, skip, every):
        nonlocal judged
        if any(isinstance(a, ast.Starred) for a in c.args) or any(k.arg is None for k in c.keywords):
            return
        params = arg_names(callee)[skip:]
        nd = len(callee.args.defaults)
        cand = params if every else (params[len(params) - nd:] if nd else [])
        bound = set(params[: len(c.args)]) | {k.arg for k in c.keywords}
        mine = set(arg_names(caller))
        for p in cand:
            if p in mine:
                judged += 1
                if p not in bound:
                    out.append((rel, qn, c.lineno, callee.name, p))

    for m in mods:
        fns = {n.name: n for n in m.tree.body if isinstance(n, ast.FunctionDef)}
        for qn, caller in m.functions.items():
            if "<" in qn:
                continue
            al = None
            for c in ast.walk(caller):
                if not isinstance(c, ast.Call):
                    continue
                if isinstance(c.func, ast.Name) and c.func.id in fns and c.func.id != caller.name:
                    judge(m.rel, qn, caller, c, fns[c.func.id], 0, False)
                elif isinstance(c.func, ast.Attribute) and c.func.attr == caller.name and isinstance(c.func.value, ast.Call) and unparse(c.func.value.func) == "super" and "." in qn:
                    for b in m.classes[qn.split(".")[0]].bases:
                        bn = unparse(b).split(".")[-1]
                        for m2 in classes.get(bn, []):
                            f = m2.functions.get(bn + "." + caller.name)
                            if f is not None:
                                judge(m.rel, qn, caller, c, f, 1, False)
                else:  # a function / class of another module of the package, reached through an import
                    txt = unparse(c.func)
                    head = txt.split(".")[0]
                    al = aliases_of(m, caller) if al is None else al
                    if head in al and head not in fns:
                        f2, rest = resolve(m.rel, al[head] + txt[len(head):])
                        if f2 is not None and len(rest) == 1:
                            m2 = byrel[f2]
                            if rest[0] in m2.functions:
                                judge(m.rel, qn, caller, c, m2.functions[rest[0]], 0, False)
                            elif rest[0] in m2.classes and rest[0] + ".__init__" in m2.functions:
                                judge(m.rel, qn, caller, c, m2.functions[rest[0] + ".__init__"], 1, False)
    out = [o for o in out if (o[1], o[3], o[4]) not in NOT_FORWARDED]
    return judged, out


def forwarded_optionals(ctx, rule_id="ARG-FORWARDED"):
    """A function that accepts an optional argument and delegates to a callee with an optional parameter of the same name
    passes it on.  Otherwise the callee silently takes its default (for `parameters=None`: the mutable global parameter
    object) and the value the user gave has no effect on the result."""
    r = ctx.rule(rule_id, "package-wide: an optional parameter of a package function / constructor or of the base-class method reached through super() that the caller also has under the same name is passed on, not left to its default", 1)
    judged, bad = dropped(ctx.repo)
    if judged < 150:
        raise AnalysisError("forwarded optionals: only %d sites found in the package" % judged)
    for rel, qn, line, callee, p in bad:
        r.fail("%s::%s -> %s: %s" % (rel.rsplit("/", 1)[-1], qn, callee, p), rel, qn, line, "call of %s(...) in %s" % (callee, qn),
               "%s accepts `%s` but does not pass it to %s, which then uses its default (for a parameter object: the global one): the given value is ignored" % (qn, p, callee))
    if not bad:
        r.ok("%d optional parameters passed on" % judged)

    class _R:
        def __init__(self, src):
            from .src import Module
            self.m = Module.__new__(Module)
            tree = ast.parse(src)
            self.m.rel, self.m.tree, self.m.classes, self.m.functions, self.m.aliases = "x.py", tree, {}, {}, {}
            for n in tree.body:
                if isinstance(n, ast.ClassDef):
                    self.m.classes[n.name] = n
                    for s in n.body:
                        if isinstance(s, ast.FunctionDef):
                            self.m.functions[n.name + "." + s.name] = s
                elif isinstance(n, ast.FunctionDef):
                    self.m.functions[n.name] = n

        def py_files(self, sub):
            return ["x.py"]

        def mod(self, rel):
            return self.m

    src = "class Base:\n    def __init__(self, domain, dual, parameters=None):\n        pass\n\nclass Dense(Base):\n    def __init__(self, domain, dual, parameters=None):\n        super().__init__(domain, dual%s)\n"
    r.must_fire(len(dropped(_R(src % ""))[1]) == 1 and not dropped(_R(src % ", parameters"))[1], "constructor that does not hand `parameters` to its base class")
