"""C10/C11/C04: vertices of the barycentric refinement (the table of sub-triangles is rule REFINE-CHILDREN / P1-BARY).

`_create_barycentric_connectivity_array` appends, to the coarse vertices, one barycentre per element and one midpoint
per edge, the latter created when the edge is first met and looked up afterwards.  The sub-triangle table refers to
these through `midpoint_index` and `local_vertex_ids[k]`; this rule decides that the two really are the barycentre of
the element and the midpoint of its k-th edge, by abstract execution of the loop body in the two states of the edge memo.
"""

import ast
from fractions import Fraction as F

from . import bary, dispatch, roles
from .core import AnalysisError
from .rwgdofs import _sentinel
from .src import arg_names, unparse

GRID = "bempp_cl/api/grid/grid.py"
FN = "_create_barycentric_connectivity_array"


def _scaled_sum(text, factor, inner):
    """text == factor * _np.sum(inner, axis=1) in one of the usual spellings."""
    n = ast.parse(text, mode="eval").body
    f, s = None, None
    if isinstance(n, ast.BinOp) and isinstance(n.op, ast.Mult):
        for a, b in ((n.left, n.right), (n.right, n.left)):
            try:
                f = bary.frac(a)
                s = b
                break
            except AnalysisError:
                continue
    elif isinstance(n, ast.BinOp) and isinstance(n.op, ast.Div):
        try:
            f = 1 / bary.frac(n.right)
            s = n.left
        except (AnalysisError, ZeroDivisionError):
            return False
    if f != factor or s is None:
        return False
    if not (isinstance(s, ast.Call) and unparse(s.func).split(".")[-1] == "sum" and len(s.args) == 1):
        return False
    ax = [k.value for k in s.keywords if k.arg == "axis"]
    return unparse(s.args[0]).replace(" ", "") == inner and len(ax) == 1 and isinstance(ax[0], ast.Constant) and ax[0].value == 1


def analyse(fn):
    p = arg_names(fn)
    if len(p) != 5:
        raise AnalysisError("%s: signature changed" % FN)
    V, E, EE, ED, NE = p
    defs = roles.Defs(fn)
    out = []
    ret = [s for s in fn.body if isinstance(s, ast.Return)]
    if len(ret) != 1 or not isinstance(ret[0].value, ast.Tuple) or len(ret[0].value.elts) != 2:
        raise AnalysisError("%s: does not return (vertices, elements)" % FN)
    NV, NEL = (unparse(e) for e in ret[0].value.elts)
    allocs = {unparse(s.targets[0]): s for s in fn.body if isinstance(s, ast.Assign) and isinstance(s.value, ast.Call) and unparse(s.value.func).split(".")[-1] in ("empty", "zeros")}
    if NV not in allocs or NEL not in allocs:
        raise AnalysisError("%s: result arrays are not allocated at the top level" % FN)
    # the running vertex counter starts as the number of coarse vertices; before the loop its name stands for that number
    cnt_names = {n.target.id for n in ast.walk(fn) if isinstance(n, ast.AugAssign) and isinstance(n.op, ast.Add) and isinstance(n.target, ast.Name) and isinstance(n.value, ast.Constant) and n.value.value == 1}
    nv0 = {"%s.shape[1]" % V}
    for c in cnt_names:
        ini = [s for s in fn.body if isinstance(s, ast.Assign) and unparse(s.targets[0]) == c]
        if len(ini) == 1 and unparse(ini[0].value).replace(" ", "") == "%s.shape[1]" % V:
            nv0.add(c)
    shp = allocs[NV].value.args[0]
    got_sz = roles.canon(shp.elts[1], defs).replace(" ", "") if isinstance(shp, ast.Tuple) and len(shp.elts) == 2 else unparse(shp)
    okv = got_sz in {roles.expect("A + E.shape[1] + N", defs, allocs[NV].lineno, A=a, E=E, N=NE) for a in nv0}
    out.append(("vertex table size", okv, "the vertex table has `%s` columns, expected (coarse vertices + elements + edges)" % got_sz, allocs[NV].lineno))
    shp2 = allocs[NEL].value.args[0]
    oke = isinstance(shp2, ast.Tuple) and len(shp2.elts) == 2 and roles.canon(shp2.elts[1], defs).replace(" ", "") == roles.expect("6 * E.shape[1]", defs, allocs[NEL].lineno, E=E)
    out.append(("element table size", oke, "the element table has `%s` columns, expected 6 per coarse element" % (roles.canon(shp2.elts[1], defs) if isinstance(shp2, ast.Tuple) and len(shp2.elts) == 2 else unparse(shp2)), allocs[NEL].lineno))
    loops = [s for s in fn.body if isinstance(s, ast.For)]
    if len(loops) != 1 or not isinstance(loops[0].target, ast.Name):
        raise AnalysisError("%s: expected one loop over the elements" % FN)
    outer = loops[0]
    I = outer.target.id
    out.append(("all elements visited", roles.canon(outer.iter, defs).replace(" ", "") == "range(%s.shape[1])" % E, "the loop runs over `%s`, not over all coarse elements" % unparse(outer.iter), outer.lineno))
    # coarse vertices copied to the front
    pre = [s for s in fn.body if isinstance(s, ast.Assign) and isinstance(s.targets[0], ast.Subscript) and unparse(s.targets[0].value) == NV and s.lineno < outer.lineno]
    okc = False
    if len(pre) == 1:
        t = pre[0].targets[0].slice
        okc = isinstance(t, ast.Tuple) and len(t.elts) == 2 and isinstance(t.elts[1], ast.Slice) and t.elts[1].lower is None and t.elts[1].upper is not None \
            and roles.canon(t.elts[1].upper, defs).replace(" ", "") in nv0 and unparse(pre[0].value) == V
    out.append(("coarse vertices keep their numbers", bool(okc), "the coarse vertices are not copied to columns [0, number of coarse vertices)", pre[0].lineno if pre else fn.lineno))
    # running counter
    incs = [n for n in ast.walk(outer) if isinstance(n, ast.AugAssign) and isinstance(n.op, ast.Add) and isinstance(n.target, ast.Name) and isinstance(n.value, ast.Constant) and n.value.value == 1]
    cn = {n.target.id for n in incs}
    if len(cn) != 1:
        raise AnalysisError("%s: no single running vertex counter" % FN)
    C = cn.pop()
    init = [s for s in fn.body if isinstance(s, ast.Assign) and unparse(s.targets[0]) == C and s.lineno < outer.lineno]
    out.append(("counter starts after the coarse vertices", len(init) == 1 and unparse(init[0].value).replace(" ", "") == "%s.shape[1]" % V, "the vertex counter starts at `%s`, expected the number of coarse vertices" % (unparse(init[0].value) if init else None), init[0].lineno if init else fn.lineno))
    # memo table
    memo = None
    for s in fn.body:
        if isinstance(s, ast.Assign) and isinstance(s.targets[0], ast.Name) and _sentinel(s.value, fn) is not None and s.lineno < outer.lineno:
            sv = roles.inline(s.value, roles.Defs(fn))
            c = sv.operand if isinstance(sv, ast.UnaryOp) else sv
            if isinstance(c, ast.Call) and c.args and unparse(c.args[0]) == NE:
                memo = (s.targets[0].id, _sentinel(s.value, fn), s.lineno)
    if memo is None:
        raise AnalysisError("%s: edge -> vertex memo table not found" % FN)
    M, sent, mline = memo
    out.append(("edge memo sentinel", sent < 0, "the edge -> vertex table starts at %s: vertex number %s cannot be told from `not created yet`" % (sent, sent), mline))
    if sent >= 0:
        return out
    inner = [s for s in outer.body if isinstance(s, ast.For)]
    if len(inner) != 1 or not isinstance(inner[0].target, ast.Name) or unparse(inner[0].iter).replace(" ", "") != "range(3)":
        raise AnalysisError("%s: no `for local_index in range(3)` in the element loop" % FN)
    inner = inner[0]
    K = inner.target.id
    # barycentre part: statements of the element loop before the edge loop
    head = [s for s in outer.body if s.lineno < inner.lineno]
    effs = dispatch.effects(head, {}, FN)
    st = [e for e in effs if e[0] == "store" and e[1].replace(" ", "") == "%s[:,%s]" % (NV, C)]
    mid = [e for e in effs if e[0] == "set" and e[2] == C]
    aug = [e for e in effs if e[0] == "aug" and e[1] == C]
    okb = all(e[2:] == ("Add", "1") for e in aug) and len(st) == 1 and _scaled_sum(st[0][2], F(1, 3), "%s[:,%s[:,%s]]" % (V, E, I)) and len(mid) == 1 and len(aug) == 1 and effs.index(st[0]) < effs.index(aug[0]) and effs.index(mid[0]) < effs.index(aug[0])
    out.append(("barycentre vertex", bool(okb), "per element: stores %s, names bound to the counter %s, counter steps %d; expected new_vertices[:, counter] = 1/3 * sum of the element's vertices, its number remembered, then the counter advanced" % (
        [e[1:] for e in st], [e[1] for e in mid], len(aug)), outer.lineno))
    MID = mid[0][1] if mid else None
    # edge part
    names = {s.targets[0].id: s for s in inner.body if isinstance(s, ast.Assign) and isinstance(s.targets[0], ast.Name)}
    edge = [n for n, s in names.items() if unparse(s.value).replace(" ", "") == "%s[%s,%s]" % (EE, K, I)]
    if len(edge) != 1:
        out.append(("edge of (element, local index)", roles.found_or(False, names, EE + "["), "no local is defined as %s[local_index, element]" % EE, inner.lineno))
        return out
    ED_ = edge[0]
    lvi = None
    for seen in (False, True):
        env = {"%s[%s]" % (M, ED_): 7 if seen else sent}
        effs = dispatch.effects(inner.body, env, FN)
        stv = [e for e in effs if e[0] == "store" and e[1].replace(" ", "") == "%s[:,%s]" % (NV, C)]
        stm = [e for e in effs if e[0] == "store" and e[1].replace(" ", "") == "%s[%s]" % (M, ED_)]
        stl = [e for e in effs if e[0] == "store" and e[1].replace(" ", "").endswith("[%s]" % K) and not e[1].startswith(NV)]
        aug = [e for e in effs if e[0] == "aug" and e[1] == C]
        if seen:
            ok = not stv and not stm and not aug and len(stl) == 1 and stl[0][2].replace(" ", "") == "%s[%s]" % (M, ED_)
            msg = "an edge met before: vertex stores %s, memo stores %s, counter steps %d, local id stores %s; expected only local_vertex_ids[k] = memo[edge]" % ([e[1:] for e in stv], [e[1:] for e in stm], len(aug), [e[1:] for e in stl])
        else:
            ok = all(e[2:] == ("Add", "1") for e in aug) and len(stv) == 1 and _scaled_sum(stv[0][2], F(1, 2), "%s[:,%s[:,%s]]" % (V, ED, ED_)) and len(stm) == 1 and stm[0][2] == C and len(stl) == 1 and stl[0][2] == C and len(aug) == 1 \
                and effs.index(aug[0]) > max(effs.index(stv[0]), effs.index(stm[0]), effs.index(stl[0]))
            msg = "a new edge: vertex stores %s, memo stores %s, local id stores %s, counter steps %d; expected new_vertices[:, counter] = 1/2 * sum of the edge's end points, memo[edge] = local_vertex_ids[k] = counter, then the counter advanced" % (
                [e[1:] for e in stv], [e[1:] for e in stm], [e[1:] for e in stl], len(aug))
        if stl:
            lvi = ast.parse(stl[0][1], mode="eval").body.value.id if isinstance(ast.parse(stl[0][1], mode="eval").body, ast.Subscript) and isinstance(ast.parse(stl[0][1], mode="eval").body.value, ast.Name) else lvi
        out.append(("edge midpoint vertex, edge %s" % ("met before" if seen else "new"), bool(ok), msg, inner.lineno))
    # the names the element table uses are these two
    used = {unparse(s.value) for s in outer.body if isinstance(s, ast.Assign) and isinstance(s.targets[0], ast.Subscript) and unparse(s.targets[0].value) == NEL}
    okn = MID in used and lvi is not None and any(u.startswith(lvi + "[") for u in used)
    out.append(("element table refers to these vertices", okn, "the sub-triangle table uses %s; barycentre is `%s`, midpoints are `%s[k]`" % (sorted(used)[:6], MID, lvi), outer.lineno))
    return out


def barycentric_vertices(ctx):
    r = ctx.rule("BARY-VERTICES", "barycentric refinement: vertex table = coarse vertices, then per element its barycentre (1/3 sum of its vertices) and per edge, when first met, its midpoint (1/2 sum of its end points), numbered by a running counter; the element table's `midpoint_index` / `local_vertex_ids[k]` are these numbers", 10)
    fn = ctx.repo.mod(GRID).fn(FN)
    for inst, ok, msg, line in analyse(fn):
        r.check(ok, inst, GRID, FN, line, inst, msg)
    r.must_fire(not _scaled_sum("0.5 * _np.sum(vertices[:, elements[:, index]], axis=1)", F(1, 3), "vertices[:,elements[:,index]]") and _scaled_sum("1.0 / 3 * _np.sum(vertices[:, elements[:, index]], axis=1)", F(1, 3), "vertices[:,elements[:,index]]"),
                "barycentre computed with factor 1/2")
