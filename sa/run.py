"""CLI: ``python -m sa.run <Cxx|all> [--tier quick|thorough] [--replay file]``.

Exit 0: every rule instance held (or is listed in known_findings.json).
Exit 1: ``VIOLATION property=<id> replay=<path>`` — an unlisted violation.
Exit 2: ``ANALYSIS-ERROR`` — anchor vanished / construct not analysable.
"""

import importlib
import json
import os
import sys
import traceback

from . import core


def run_property(prop, tier, quiet=False):
    seed = int(os.environ.get("VERIF_SEED", "0") or 0)
    try:
        mod = importlib.import_module("sa.props." + prop.lower())
    except ModuleNotFoundError:
        print("ANALYSIS-ERROR property=%s no check implemented" % prop)
        return 2
    ctx = core.Ctx(prop, tier, seed)
    try:
        mod.run(ctx)
        ctx.finish_floors()
    except core.DefectFound as e:
        # the interpretation met a definite defect (uninitialised read): a verdict, reported like any rule instance; the
        # rules that would have run after it did not (the first defect of this kind ends the run)
        ctx.rule(e.rule_id, e.rule_desc, 0).fail(
            "%s::%s" % (e.file.rsplit("/", 1)[-1], e.function), e.file, e.function, e.line, e.construct, e.message)
    except core.AnalysisError as e:
        # the analysis could not be completed.  Violations that rules had already decided stand (a rule's verdict does
        # not depend on what a later rule can or cannot analyse); without any, the run is "cannot analyse" (exit 2).
        known_ = core.load_known()
        if not [r for r in ctx.reports if core.match_known(r, known_) is None]:
            print("ANALYSIS-ERROR property=%s %s" % (prop, e))
            core.write_evidence(
                ctx, mod.LEVEL, mod.EXPLANATION, mod.ASSUMPTIONS, 0, [], "analysis-error: %s" % e, _lk(mod, ctx)
            )
            return 2
        print("  note: the analysis stopped early (%s); the violations decided before that are reported" % str(e)[:200])
        ctx.notes.append("analysis stopped early: %s" % e)
    except Exception:
        print("ANALYSIS-ERROR property=%s internal error" % prop)
        traceback.print_exc()
        return 2
    known = core.load_known()
    unlisted = []
    hits = []
    seen = set()
    for r in ctx.reports:
        k = core.match_known(r, known)
        if k is not None:
            if r.key() not in seen:
                seen.add(r.key())
                print("KNOWN-FINDING: property=%s %s (%s)" % (prop, k.get("text", r.message), r.text()))
                hits.append(k.get("id", r.construct))
        else:
            unlisted.append(r)
    if tier == "thorough" and not unlisted and "VERIF_REPO" not in os.environ:
        # thorough = the same total rules + a measurement of their discriminating power on today's tree: the property's
        # mutants must be reported, its behaviour-preserving rewrites must not.  Informational (a weaker checker is not
        # a violation of the property): recorded in the evidence, never changes the exit status.
        from . import selftest

        adq = selftest.adequacy(prop)
        ctx.sample({"mutation_adequacy": adq})
        print("  adequacy: %d/%d mutants reported, %d/%d rewrites silent%s%s" % (
            adq["caught"], adq["mutants"], adq["silent"], adq["rewrites"],
            ("; MISSED %s" % adq["missed"]) if adq["missed"] else "", ("; NOISY %s" % adq["noisy"]) if adq["noisy"] else ""))
        gen = selftest.generated_sample(prop)
        ctx.sample({"generated_mutant_sample": gen})
        print("  generated mutants in the anchored ranges: %d, sampled %d: %d reported, %d analysis errors, %d unreported (mostly behaviour-preserving, DESIGN 10.3)" % (
            gen["generated_in_anchor_ranges"], gen["sampled"], gen["reported"], gen["analysis_error"], len(gen["unreported"])))
        eq = selftest.equivalent_sample(prop)
        ctx.sample({"generated_equivalent_sample": eq})
        print("  generated behaviour-preserving rewrites in the anchored ranges: %d, sampled %d: %d silent, %d false alarms, %d cannot-analyse (DESIGN 10.4)%s" % (
            eq["generated_in_anchor_ranges"], eq["sampled"], eq["silent"], len(eq["false_alarms"]), len(eq["cannot_analyse"]),
            ("; FALSE ALARMS %s" % eq["false_alarms"][:4]) if eq["false_alarms"] else ""))
    status = "violated" if unlisted else "holds"
    core.write_evidence(ctx, mod.LEVEL, mod.EXPLANATION, mod.ASSUMPTIONS, len(unlisted), hits, status, _lk(mod, ctx))
    n_inst = sum(len(r.instances) for r in ctx.rules.values())
    if not quiet:
        for r in ctx.rules.values():
            print(
                "  rule %-28s instances=%-4d held=%-4d %s"
                % (r.id, len(r.instances), sum(1 for i in r.instances if i["holds"]), r.desc[:90])
            )
    if unlisted:
        os.makedirs(os.path.join(core.OUT, "replay"), exist_ok=True)
        path = os.path.join(core.OUT, "replay", "%s.json" % prop)
        with open(path, "w") as f:
            json.dump([r.as_dict() for r in unlisted], f, indent=1)
        for r in unlisted:
            print("  report: " + r.text())
        print("VIOLATION property=%s replay=%s" % (prop, path))
        return 1
    print(
        "OK property=%s tier=%s rules=%d instances=%d files=%d wall=%.2fs"
        % (prop, tier, len(ctx.rules), n_inst, len(ctx.consulted), __import__("time").time() - ctx.t0)
    )
    return 0


def _lk(mod, ctx):
    f = getattr(mod, "level_keys", None)
    try:
        return f(ctx) if f else None
    except Exception:
        return None


def main(argv):
    if not argv:
        print(__doc__)
        return 2
    target = argv[0]
    tier = os.environ.get("VERIF_TIER") or "quick"
    if "--tier" in argv:
        tier = argv[argv.index("--tier") + 1]
    if tier not in ("quick", "thorough"):
        tier = "quick"
    if "--replay" in argv:
        path = argv[argv.index("--replay") + 1]
        with open(path) as f:
            for r in json.load(f):
                print("%(file)s:%(line)s %(function)s [%(rule)s] %(instance)s: %(message)s" % r)
        # replay = re-run the static check: it is deterministic in the tree
    if target == "selftest":
        from . import selftest

        return selftest.main(argv[1:])
    if target == "all":
        rc = 0
        for i in range(1, 21):
            p = "C%02d" % i
            if os.path.exists(os.path.join(core.VERIF, "sa", "props", p.lower() + ".py")):
                rc = max(rc, run_property(p, tier, quiet=True))
        return rc
    return run_property(target.upper(), tier)


if __name__ == "__main__":
    sys.exit(main(sys.argv[1:]))
