"""Shared plumbing: rule bookkeeping, reports, known findings, evidence.

Every property check is a function ``run(ctx)`` that registers *rules* and, for
each rule, *instances* (the concrete constructs of /repo the rule was applied
to).  An instance either holds or yields a report.  Nothing here imports or
executes code of the repository under analysis.
"""

import hashlib
import json
import os
import re
import time

VERIF = os.path.dirname(os.path.dirname(os.path.abspath(__file__)))
REPO = os.environ.get("VERIF_REPO", "/repo")
# evidence/ and replay/ go here; only the self-test redirects it (its scratch-copy runs must not clobber real evidence)
OUT = os.environ.get("VERIF_OUT", VERIF)


class AnalysisError(Exception):
    """An anchor vanished or a construct is outside the analysable subset.

    Never a verdict: the run ends with exit status 2.
    """


class DefectFound(AnalysisError):
    """The symbolic interpretation itself met a definite defect of the analysed code (not a limit of the analysis): a
    slot of an array allocated with np.empty is read although no store can have reached it.  Reported as a violation
    (rule INTERP-FAULT) by the property that was interpreting the function; a rule that catches AnalysisError to report
    its own instance still does so."""

    rule_id = "INTERP-FAULT"
    rule_desc = "the symbolic interpretation of a function meets no definite fault: no read of an np.empty slot before a store reaches it, no index outside a literal extent or below zero, no axis or index an array does not have, no name bound nowhere, no division by an identically zero value"

    def __init__(self, file, function, line, construct, message):
        AnalysisError.__init__(self, "%s::%s line %s: %s" % (file, function, line, message))
        self.file, self.function, self.line, self.construct, self.message = file, function, line, construct, message


class SignGuard(DefectFound):
    """A kernel function applies part of its formula under a test on the SIGN of a kernel parameter, and the value it
    returns where the test fails is a different expression."""

    rule_id = "K-SIGN-GUARD"
    rule_desc = "a kernel whose formula is selected by the sign of a parameter (`if wavenumber_imag > 0:`) returns the same function on both sides (kernels are analytic in their parameters)"


class TableWrong(DefectFound):
    """A connectivity table was read completely and is not a table of the required kind (a slot written twice, a slot
    of another element written, children missing): whatever rule needed the table reports it under TABLE-WELLFORMED."""

    rule_id = "TABLE-WELLFORMED"
    rule_desc = "refinement / barycentric connectivity tables assign every (child, corner) slot of the element being refined exactly once"


def norm(text):
    """Normalise a construct string (whitespace-insensitive)."""
    return re.sub(r"\s+", " ", str(text)).strip()


class Report:
    def __init__(self, prop, rule, file, function, line, construct, message, instance):
        self.prop = prop
        self.rule = rule
        self.file = file
        self.function = function
        self.line = line
        self.construct = norm(construct)
        self.message = message
        self.instance = instance

    def key(self):
        return (self.prop, self.rule, self.file, self.function, self.construct)

    def as_dict(self):
        return {
            "property": self.prop,
            "rule": self.rule,
            "file": self.file,
            "function": self.function,
            "line": self.line,
            "construct": self.construct,
            "instance": self.instance,
            "message": self.message,
        }

    def text(self):
        return "%s:%s %s [%s] %s: %s" % (
            self.file,
            self.line,
            self.function,
            self.rule,
            self.instance,
            self.message,
        )


class Rule:
    def __init__(self, ctx, rid, desc, floor):
        self.ctx = ctx
        self.id = rid
        self.desc = desc
        self.floor = floor
        self.instances = []
        self.failed = 0
        self.positive = None  # None = no embedded positive needed

    def ok(self, instance, detail=None):
        self.instances.append({"instance": instance, "holds": True, **({"detail": detail} if detail else {})})

    def fail(self, instance, file, function, line, construct, message):
        self.instances.append({"instance": instance, "holds": False, "detail": message})
        self.failed += 1
        self.ctx.reports.append(Report(self.ctx.prop, self.id, file, function, line, construct, message, instance))

    def check(self, cond, instance, file, function, line, construct, message, detail=None):
        if cond is None:
            # three-valued recognisers: None = "the construction is written in a way the rule does not read" - a limit of
            # the analysis (exit 2), never a verdict
            raise AnalysisError("rule %s, %s: construction not recognised: %s" % (self.id, instance, message))
        if cond:
            self.ok(instance, detail)
        else:
            self.fail(instance, file, function, line, construct, message)
        return cond

    def must_fire(self, fired, what):
        """Embedded positive example: the rule's predicate applied to a tiny
        synthetic violating fragment must report it."""
        if not fired:
            raise AnalysisError("rule %s: embedded positive example did not fire (%s)" % (self.id, what))
        self.positive = what


class Ctx:
    def __init__(self, prop, tier, seed=0):
        self.prop = prop
        self.tier = tier
        self.seed = seed
        self.rules = {}
        self.reports = []
        self.consulted = set()
        self.notes = []
        self.samples = []
        self.extra = {}
        self.t0 = time.time()
        from .src import Repo

        self.repo = Repo(REPO, self.consulted)

    @property
    def thorough(self):
        return self.tier == "thorough"

    def rule(self, rid, desc, floor=1):
        if rid in self.rules:
            return self.rules[rid]
        r = Rule(self, rid, desc, floor)
        self.rules[rid] = r
        return r

    def sample(self, obj):
        if len(self.samples) < 12:
            self.samples.append(obj)

    def finish_floors(self):
        for r in self.rules.values():
            # a rule that already reported a violation may legitimately have stopped enumerating: the violation is
            # the verdict, not "anchors moved"
            if any(not i["holds"] for i in r.instances):
                continue
            if len(r.instances) < r.floor:
                raise AnalysisError(
                    "rule %s matched %d instance(s), floor is %d: the anchors it enumerates have moved"
                    % (r.id, len(r.instances), r.floor)
                )


# ---------------------------------------------------------------- findings


def load_known():
    path = os.path.join(VERIF, "known_findings.json")
    if not os.path.exists(path):
        return []
    with open(path) as f:
        return json.load(f).get("findings", [])


def match_known(report, known):
    for k in known:
        if k.get("status") != "known":
            continue  # "fixed" entries suppress nothing
        if (
            k["property"] == report.prop
            and k["rule"] == report.rule
            and k["file"] == report.file
            and k["function"] == report.function
            and norm(k["construct"]) == report.construct
        ):
            return k
    return None


# ---------------------------------------------------------------- evidence


def digest(paths):
    h = hashlib.sha256()
    for p in sorted(paths):
        h.update(p.encode())
        try:
            with open(os.path.join(REPO, p), "rb") as f:
                h.update(f.read())
        except OSError:
            h.update(b"<missing>")
    return h.hexdigest()[:16]


def write_evidence(ctx, level, explanation, assumptions, violations, known_hits, status, level_keys=None):
    rules = []
    n_inst = 0
    n_ok = 0
    for r in ctx.rules.values():
        n_inst += len(r.instances)
        n_ok += sum(1 for i in r.instances if i["holds"])
        rules.append(
            {
                "rule": r.id,
                "description": r.desc,
                "floor": r.floor,
                "instances": len(r.instances),
                "held": sum(1 for i in r.instances if i["holds"]),
                "embedded_positive": r.positive,
                "instance_list": r.instances if len(r.instances) <= 400 else r.instances[:400],
            }
        )
    distinct = len({(r.id, i["instance"]) for r in ctx.rules.values() for i in r.instances})
    # the list of rules actually applied in this run leads the explanation (the module text may lag behind new rules)
    applied = "rules applied in this run: " + ", ".join("%s (%d)" % (r["rule"], r["instances"]) for r in rules)
    if explanation and not explanation.startswith("rules "):
        applied += ".  " + explanation
    cov = {
        "explanation": applied,
        "obligations": n_inst,
        "discharged": n_ok,
        "evaluations": n_inst,
        "distinct_nontrivial": distinct,
        "rule": "one obligation per (rule, instance); an instance is a concrete construct of /repo "
        "(function, call site, table, kernel pair, region ...) enumerated from the current tree; "
        "distinct = distinct (rule, instance) names",
        "samples": ctx.samples or [i for r in rules for i in r["instance_list"][:2]][:10],
        "rules": rules,
        "files_consulted": sorted(ctx.consulted),
        "source_digest": digest(ctx.consulted),
        "known_findings_reported": known_hits,
        "status": status,
        "notes": ctx.notes,
    }
    cov.update(ctx.extra)
    if level_keys:
        cov.update(level_keys)
    ev = {
        "property_id": ctx.prop,
        "tier": ctx.tier,
        "seed": ctx.seed,
        "level": level,
        "coverage": cov,
        "assumptions": assumptions,
        "wall_s": round(time.time() - ctx.t0, 3),
        "violations": violations,
    }
    os.makedirs(os.path.join(OUT, "evidence"), exist_ok=True)
    path = os.path.join(OUT, "evidence", ctx.prop + ".json")
    with open(path, "w") as f:
        json.dump(ev, f, indent=1, sort_keys=False, default=str)
        f.write("\n")
    return path
