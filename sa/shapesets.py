"""Reference shapesets (api/space/shapesets.py) as KEX values over local coordinates ξ0, ξ1."""

import ast

from . import symex
from .alg import V
from .core import AnalysisError
from .src import dict_literals
from .symex import Arr, Interp, Opq, opaque_atom

SH = "bempp_cl/api/space/shapesets.py"
XI = [V.atom("ξ0"), V.atom("ξ1")]


def registry(ctx):
    """identifier -> {'evaluate': fname, 'gradient': fname, 'number_of_shape_functions': n, 'dimension': d}."""
    m = ctx.repo.mod(SH)
    v = m.assigns.get("_SHAPESETS")
    if not isinstance(v, ast.Dict):
        raise AnalysisError("_SHAPESETS registry vanished")
    out = {}
    for k, d in zip(v.keys, v.values):
        if not (isinstance(k, ast.Constant) and isinstance(d, ast.Dict)):
            raise AnalysisError("_SHAPESETS entry is not a literal")
        ent = {}
        for kk, vv in zip(d.keys, d.values):
            if isinstance(vv, ast.Name):
                ent[kk.value] = vv.id
            elif isinstance(vv, ast.Constant):
                ent[kk.value] = vv.value
        out[k.value] = ent
    return out


def evaluate(ctx, fname, dimension, nfun):
    """vals[c][f] of the Python shapeset function ``fname`` at the generic local point (ξ0, ξ1)."""
    m = ctx.repo.mod(SH)
    fn = m.fn(fname)
    params = [a.arg for a in fn.args.args]
    if len(params) != 1:
        raise AnalysisError("shapeset %s is not unary" % fname)
    symex.reset()
    N = opaque_atom("#pts")
    symex.RANGES["J"] = N
    lc = Arr("L", "input", ndim=2, shape=[2, N])
    it = Interp(m, fn, {params[0]: lc}, {"globals": {"_np": Opq("_np", "module")}})
    r = it.run()
    if r is None:
        raise AnalysisError("shapeset %s returns nothing" % fname)
    J = V.atom("J")
    env = {"L⟨0,J⟩": XI[0], "L⟨1,J⟩": XI[1]}
    out = []
    for c in range(dimension):
        row = []
        for f in range(nfun):
            v = symex.tov(it.index(r, [c, f, J], fn)).subs(env)
            bad = [a for a in v.atoms() if a not in ("ξ0", "ξ1")]
            if bad:
                raise AnalysisError("shapeset %s[%d,%d] depends on %s" % (fname, c, f, bad[:3]))
            row.append(v)
        out.append(row)
    return out


def gradient(ctx, fname, dimension, nfun):
    """grad[c][g][f]: derivative in reference direction g of component c of function f."""
    m = ctx.repo.mod(SH)
    fn = m.fn(fname)
    params = [a.arg for a in fn.args.args]
    symex.reset()
    N = opaque_atom("#pts")
    symex.RANGES["J"] = N
    lc = Arr("L", "input", ndim=2, shape=[2, N])
    it = Interp(m, fn, {params[0]: lc}, {"globals": {"_np": Opq("_np", "module")}})
    r = it.run()
    J = V.atom("J")
    env = {"L⟨0,J⟩": XI[0], "L⟨1,J⟩": XI[1]}
    out = []
    for c in range(dimension):
        rows = []
        for g in range(2):
            rows.append([symex.tov(it.index(r, [c, g, f, J], fn)).subs(env) for f in range(nfun)])
        out.append(rows)
    return out
