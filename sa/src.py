"""SRC: source model of /repo (stdlib ``ast`` only)."""

import ast
import os

from .core import AnalysisError


def unparse(node):
    return ast.unparse(node)


FETCHED = set()  # (file, qualified function name) of every Module.fn() call of this process


class Module:
    def __init__(self, root, rel):
        self.rel = rel
        self.path = os.path.join(root, rel)
        try:
            with open(self.path) as f:
                self.source = f.read()
        except OSError as e:
            raise AnalysisError("anchor file missing: %s (%s)" % (rel, e))
        try:
            from .normal import canonical

            self.tree = canonical(ast.parse(self.source, filename=rel))
        except SyntaxError as e:
            raise AnalysisError("cannot parse %s: %s" % (rel, e))
        self.functions = {}  # qualified name -> FunctionDef
        self.classes = {}
        self.aliases = {}  # local name -> dotted origin
        self.assigns = {}  # module-level name -> value node
        for node in self.tree.body:
            if isinstance(node, (ast.FunctionDef, ast.AsyncFunctionDef)):
                self.functions[node.name] = node
            elif isinstance(node, ast.ClassDef):
                self.classes[node.name] = node
                for sub in node.body:
                    if isinstance(sub, (ast.FunctionDef, ast.AsyncFunctionDef)):
                        self.functions[node.name + "." + sub.name] = sub
            elif isinstance(node, ast.Import):
                for a in node.names:
                    self.aliases[a.asname or a.name.split(".")[0]] = a.name
            elif isinstance(node, ast.ImportFrom):
                for a in node.names:
                    self.aliases[a.asname or a.name] = ("." * node.level) + (node.module or "") + "." + a.name
            elif isinstance(node, ast.Assign) and len(node.targets) == 1 and isinstance(node.targets[0], ast.Name):
                self.assigns[node.targets[0].id] = node.value
        # nested functions (one level) are addressable as outer.<inner>
        for qn, fn in list(self.functions.items()):
            for sub in ast.walk(fn):
                if sub is not fn and isinstance(sub, ast.FunctionDef):
                    self.functions.setdefault(qn + ".<" + sub.name + ">", sub)

    def fn(self, name):
        if name not in self.functions:
            raise AnalysisError("anchor function vanished: %s::%s" % (self.rel, name))
        FETCHED.add((self.rel, name))  # (tools/unread.py: which anchored functions does no rule of a property fetch by name)
        return self.functions[name]

    def cls(self, name):
        if name not in self.classes:
            raise AnalysisError("anchor class vanished: %s::%s" % (self.rel, name))
        return self.classes[name]

    def has_fn(self, name):
        return name in self.functions

    def segment(self, node):
        return ast.get_source_segment(self.source, node)


class Repo:
    def __init__(self, root, consulted=None):
        self.root = root
        self._mods = {}
        self.consulted = consulted if consulted is not None else set()

    def mod(self, rel):
        if rel not in self._mods:
            self._mods[rel] = Module(self.root, rel)
            self.consulted.add(rel)
        return self._mods[rel]

    def text(self, rel):
        path = os.path.join(self.root, rel)
        try:
            with open(path) as f:
                s = f.read()
        except OSError as e:
            raise AnalysisError("anchor file missing: %s (%s)" % (rel, e))
        self.consulted.add(rel)
        return s

    def py_files(self, sub="bempp_cl"):
        out = []
        for d, _, fs in os.walk(os.path.join(self.root, sub)):
            for f in fs:
                if f.endswith(".py"):
                    out.append(os.path.relpath(os.path.join(d, f), self.root))
        return sorted(out)


# ------------------------------------------------------------ AST helpers


def decorator_opts(fn):
    """Return dict of keyword options of a numba jit/njit decorator, or None."""
    for d in fn.decorator_list:
        call = d if isinstance(d, ast.Call) else None
        target = call.func if call else d
        name = unparse(target)
        if name.split(".")[-1] in ("jit", "njit"):
            opts = {}
            if call:
                for kw in call.keywords:
                    if isinstance(kw.value, ast.Constant):
                        opts[kw.arg] = kw.value.value
                    else:
                        opts[kw.arg] = unparse(kw.value)
            return opts
    return None


def dict_literals(fn):
    """name -> {key: value-node} for ``name = {"k": v, ...}`` inside fn (or module)."""
    out = {}
    body = fn.body if hasattr(fn, "body") else fn
    for node in ast.walk(fn) if not isinstance(fn, list) else body:
        if isinstance(node, ast.Assign) and len(node.targets) == 1 and isinstance(node.value, ast.Dict):
            t = node.targets[0]
            if isinstance(t, ast.Name):
                d = {}
                okd = True
                for k, v in zip(node.value.keys, node.value.values):
                    if isinstance(k, ast.Constant):
                        d[k.value] = v
                    else:
                        okd = False
                if okd:
                    out[t.id] = d
    return out


def calls_in(node, name=None):
    """All ast.Call nodes under node (optionally whose func unparses to / ends with name)."""
    out = []
    for n in ast.walk(node):
        if isinstance(n, ast.Call):
            if name is None:
                out.append(n)
            else:
                f = unparse(n.func)
                if f == name or f.endswith("." + name):
                    out.append(n)
    return out


def arg_names(fn):
    a = fn.args
    return [x.arg for x in a.posonlyargs + a.args]


def call_arg(call, fn_args, pname, default=None):
    """Resolve the argument bound to parameter ``pname`` of a call given the callee's parameter list."""
    for kw in call.keywords:
        if kw.arg == pname:
            return kw.value
    if pname in fn_args:
        i = fn_args.index(pname)
        if i < len(call.args):
            return call.args[i]
    return default


def const_value(node):
    """Evaluate a literal numeric/bool/str/None/tuple/list node; raise ValueError otherwise."""
    if isinstance(node, ast.Constant):
        return node.value
    if isinstance(node, ast.UnaryOp) and isinstance(node.op, ast.USub):
        return -const_value(node.operand)
    if isinstance(node, (ast.List, ast.Tuple)):
        return [const_value(e) for e in node.elts]
    raise ValueError("not a literal: " + unparse(node))


def walk_stmts(body):
    """Yield statements of a body recursively (including nested compound statements)."""
    for st in body:
        yield st
        for field in ("body", "orelse", "finalbody"):
            sub = getattr(st, field, None)
            if sub and isinstance(sub, list) and sub and isinstance(sub[0], ast.stmt):
                yield from walk_stmts(sub)
        if isinstance(st, ast.Try):
            for h in st.handlers:
                yield from walk_stmts(h.body)
