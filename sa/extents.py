"""Index / extent agreement in the Numba kernels (array-bounds consistency, decided from the source).

Numba compiles the kernels without bounds checks: an index that runs over the wrong extent reads or writes whatever
lies behind the array instead of raising.  For every loop `for v in range(N)` / `prange(N)` and every subscript that
uses the plain loop variable v on axis k of an array A, the rule requires

  * A allocated in the function: the allocated extent of axis k is N (as canonical expressions over the parameters);
  * A a parameter and N the length of a parameter B (N = len(B) or B.shape[0]) and k = 0:  A is B, or A and B are a
    known parallel pair (tables that are built with one entry per entry of the other).

Index expressions that are not a bare loop variable (n * i + j ...) are the business of the symbolic rules.
Inside the hypersingular and Maxwell kernels the numbers of test and trial shape functions are one quantity (the factory
guards admit one shapeset on both sides), so they are identified there.
"""

import ast

from . import roles
from .core import AnalysisError
from .src import arg_names, unparse

NK = "bempp_cl/core/numba_kernels.py"

# parameter arrays that have one entry per entry of another parameter array (confirmed by reading the launch sites)
PARALLEL = {
    frozenset(("test_elements", "test_offsets")), frozenset(("test_elements", "trial_elements")), frozenset(("test_elements", "trial_offsets")),
    frozenset(("test_elements", "weights_offsets")), frozenset(("test_elements", "number_of_quad_points")),
}


def _alloc_shape(node):
    if isinstance(node, ast.Call) and unparse(node.func).split(".")[-1] in ("empty", "zeros", "ones", "full") and node.args:
        s = node.args[0]
        return list(s.elts) if isinstance(s, ast.Tuple) else [s]
    return None


def _identify(text, fname):
    t = text
    if "hypersingular" in fname or "maxwell" in fname:
        t = t.replace("nshape_trial", "nshape_test")
    return t


def findings(fn):
    defs = roles.Defs(fn)
    params = set(arg_names(fn))
    keep = tuple(params)
    allocs = {}
    for st in ast.walk(fn):
        if isinstance(st, ast.Assign) and len(st.targets) == 1 and isinstance(st.targets[0], ast.Name):
            sh = _alloc_shape(st.value)
            if sh is not None:
                allocs.setdefault(st.targets[0].id, []).append((st.lineno, sh))
    loops = []
    for n in ast.walk(fn):
        if isinstance(n, ast.For) and isinstance(n.target, ast.Name) and isinstance(n.iter, ast.Call) and unparse(n.iter.func).split(".")[-1] in ("range", "prange") and len(n.iter.args) == 1:
            loops.append(n)
    judged, bad = 0, []

    def canon(e, line=None):
        return _identify(roles.canon(e, defs).replace(" ", ""), fn.name)

    for lp in loops:
        v = lp.target.id
        need = canon(lp.iter.args[0])
        inner_rebind = [l for l in loops if l is not lp and l.target.id == v and lp.lineno < l.lineno <= lp.end_lineno]
        for n in ast.walk(lp):
            if not (isinstance(n, ast.Subscript) and isinstance(n.value, ast.Name)):
                continue
            if any(l.lineno <= n.lineno <= l.end_lineno for l in inner_rebind):
                continue
            idx = n.slice.elts if isinstance(n.slice, ast.Tuple) else [n.slice]
            A = n.value.id
            for k, ix in enumerate(idx):
                if not (isinstance(ix, ast.Name) and ix.id == v):
                    continue
                if A in allocs:
                    cands = [sh for ln, sh in allocs[A] if ln <= n.lineno]
                    if not cands:
                        continue
                    sh = cands[-1]
                    if k >= len(sh):
                        continue
                    have = canon(sh[k])
                    # a literal extent against a scalar parameter (3 vs kernel_dimension): fixed by the launch site, not decidable here
                    lit = lambda t: t.lstrip("-").isdigit()
                    if lit(have) != lit(need) and (have in params or need in params):
                        continue
                    judged += 1
                    if have != need:
                        bad.append((n.lineno, unparse(n)[:60], "axis %d of `%s` is allocated with extent `%s`, the loop variable `%s` runs over `%s`" % (k, A, have, v, need)))
                elif A in params and k == 0:
                    owner = None
                    for B in params:
                        if need in ("len(%s)" % B, "%s.shape[0]" % B):
                            owner = B
                    if owner is None:
                        continue
                    judged += 1
                    # the pair lists of the singular assemblers are parallel arrays; elsewhere test / trial element lists are unrelated
                    parallel = PARALLEL if "test_offsets" in params else set()
                    if owner != A and frozenset((owner, A)) not in parallel:
                        bad.append((n.lineno, unparse(n)[:60], "`%s` is indexed by `%s`, which runs over the entries of `%s`" % (A, v, owner)))
    return judged, bad


def index_extents(ctx, rule_id="IDX-EXTENT", only=None):
    r = ctx.rule(rule_id, "Numba kernels: a loop variable over range(N) indexes only axes of extent N (allocated arrays) or the parameter array whose length N is (kernels are compiled without bounds checks)", 20)
    m = ctx.repo.mod(NK)
    total = 0
    for qn, fn in m.functions.items():
        if "." in qn or "<" in qn:
            continue
        if only and not any(o in qn for o in only):
            continue
        judged, bad = findings(fn)
        if not judged:
            continue
        total += judged
        if not bad:
            r.ok("%s (%d subscripts)" % (qn, judged))
        for ln, txt, msg in bad:
            r.fail("%s: %s" % (qn, txt), NK, qn, ln, "extent mismatch in %s: %s" % (qn, txt), msg)
    if total < 200:
        raise AnalysisError("index/extent analysis judged only %d subscripts" % total)
    badf = ast.parse("def k(test_elements, trial_elements):\n    n_test_elements = len(test_elements)\n    n_trial_elements = len(trial_elements)\n    buf = _np.empty((n_test_elements, 3))\n    for i in range(n_trial_elements):\n        buf[i, 0] = test_elements[i]\n").body[0]
    r.must_fire(len(findings(badf)[1]) >= 1, "buffer of one entry per test element filled in a loop over the trial elements")
