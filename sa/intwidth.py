"""Index / offset arrays are wide enough for the values stored into them.

Every array of element numbers, dof numbers, offsets into concatenated point tables or CSR pointers in the package is
allocated with at least 32 bits (`uint32`, `int32`, `int64`); NumPy wraps silently when a wider integer is assigned
into a narrower integer array (`a16[...] = b64[...]`), so an offset array of 16 bits is right for small inputs and wrong
from the first input whose table passes 65535 entries (singular quadrature order 7: 42*7^4 columns).

Rule (package-wide, per function, with a small dtype inference):
  for every local array allocated with an explicit integer dtype of FEWER than 32 bits, every store into it whose
  right-hand side is inferred to be an integer array / integer scalar of at least 32 bits is a violation.
Inference (None = unknown = no verdict): allocation calls with `dtype=`; `np.array` / `np.arange` of integer literals and
sizes (int64); subscripts and integer arithmetic keep the dtype; `x.astype(D)`; a call of a method of the same class or
a function of the same module returns the dtype of its returned local (depth 2); `len(..)`, `.shape[k]`, `.size`,
`number_of_*` attributes and calls are Python integers (unbounded: treated as 64 bits).
Integer literals and booleans fit everywhere.  Byte views (`.view(dtype="uint8")`) and scalar flags (`np.uint8(0)`) are
not allocations of index arrays and are not looked at.  Zero sites on the pinned tree.
"""

import ast

from .core import AnalysisError
from .src import decorator_opts, unparse

INT_BITS = {"int8": 8, "uint8": 8, "int16": 16, "uint16": 16, "int32": 32, "uint32": 32, "int64": 64, "uint64": 64, "int": 64, "intp": 64, "uintp": 64, "int_": 64}
ALLOC = {"empty", "zeros", "ones", "full", "empty_like", "zeros_like", "ones_like", "full_like", "array", "asarray", "arange", "fromiter"}


def _dtype_name(node):
    """'uint16' for "uint16", _np.uint16, np.dtype("uint16"); None when it is not a literal dtype."""
    if isinstance(node, ast.Constant) and isinstance(node.value, str):
        return node.value
    if isinstance(node, ast.Attribute) and isinstance(node.value, ast.Name) and node.value.id in ("_np", "np", "numpy"):
        return node.attr
    if isinstance(node, ast.Name) and node.id == "int":
        return "int"
    if isinstance(node, ast.Call) and unparse(node.func).split(".")[-1] == "dtype" and len(node.args) == 1:
        return _dtype_name(node.args[0])
    return None


class Infer:
    def __init__(self, module, fn, cls=None, depth=0):
        self.m, self.fn, self.cls, self.depth = module, fn, cls, depth
        self.local = {}  # name -> bits of an integer array / scalar (None unknown)
        for st in ast.walk(fn):
            if isinstance(st, ast.Assign) and len(st.targets) == 1 and isinstance(st.targets[0], ast.Name):
                nm = st.targets[0].id
                b = self.bits(st.value)
                self.local[nm] = b if nm not in self.local or self.local[nm] == b else None

    def alloc_bits(self, call):
        f = unparse(call.func).split(".")[-1]
        if f not in ALLOC:
            return None
        dt = [k.value for k in call.keywords if k.arg == "dtype"]
        if dt:
            return INT_BITS.get(_dtype_name(dt[0]) or "")
        if f in ("array", "asarray") and call.args and isinstance(call.args[0], (ast.List, ast.Tuple)):
            leaves = [x for x in ast.walk(call.args[0]) if isinstance(x, ast.Constant)]
            others = [x for x in ast.walk(call.args[0]) if not isinstance(x, (ast.Constant, ast.List, ast.Tuple, ast.UnaryOp, ast.USub, ast.Load, ast.expr_context, ast.unaryop))]
            if leaves and not others and all(isinstance(x.value, int) and not isinstance(x.value, bool) for x in leaves):
                return 64
        if f == "arange" and call.args and all(self.bits(a) is not None for a in call.args):
            return 64
        return None

    def bits(self, e):
        """Width in bits when `e` is an integer array / non-literal integer scalar, else None."""
        if isinstance(e, ast.Name):
            return self.local.get(e.id)
        if isinstance(e, ast.Subscript):
            return self.bits(e.value)
        if isinstance(e, ast.Attribute):
            if e.attr in ("size", "ndim", "nnz") or e.attr.startswith("number_of_") or e.attr.endswith("_count"):
                return 64
            if e.attr == "T":
                return self.bits(e.value)
            return None
        if isinstance(e, ast.BinOp) and isinstance(e.op, (ast.Add, ast.Sub, ast.Mult, ast.FloorDiv, ast.Mod)):
            l, r = self.bits(e.left), self.bits(e.right)
            lit = lambda x: isinstance(x, ast.Constant) and isinstance(x.value, int)
            if l is not None and (r is not None or lit(e.right)):
                return max(l, r or 0)
            if r is not None and lit(e.left):
                return r
            return None
        if isinstance(e, ast.Call):
            f = unparse(e.func).split(".")[-1]
            if f == "len":
                return 64
            if f == "astype" and e.args:
                return INT_BITS.get(_dtype_name(e.args[0]) or "")
            a = self.alloc_bits(e)
            if a is not None:
                return a
            if f.startswith("number_of_"):
                return 64
            callee = None
            if isinstance(e.func, ast.Attribute) and isinstance(e.func.value, ast.Name) and e.func.value.id == "self" and self.cls:
                callee = self.m.functions.get("%s.%s" % (self.cls, e.func.attr))
            elif isinstance(e.func, ast.Name):
                callee = self.m.functions.get(e.func.id)
            if callee is not None and self.depth < 2 and decorator_opts(callee) is None:
                rets = [r.value for r in ast.walk(callee) if isinstance(r, ast.Return) and r.value is not None]
                if len(rets) == 1 and not isinstance(rets[0], ast.Tuple):
                    return Infer(self.m, callee, self.cls, self.depth + 1).bits(rets[0])
            return None
        return None


def sites(module, qn, fn):
    cls = qn.split(".")[0] if "." in qn else None
    inf = Infer(module, fn, cls)
    narrow = {}
    for st in ast.walk(fn):
        if isinstance(st, ast.Assign) and len(st.targets) == 1 and isinstance(st.targets[0], ast.Name) and isinstance(st.value, ast.Call):
            f = unparse(st.value.func).split(".")[-1]
            dt = [k.value for k in st.value.keywords if k.arg == "dtype"]
            if f in ALLOC and dt:
                b = INT_BITS.get(_dtype_name(dt[0]) or "")
                if b is not None and b < 32:
                    narrow[st.targets[0].id] = (b, _dtype_name(dt[0]), st.lineno)
    out = []
    for st in ast.walk(fn):
        tgt = st.target if isinstance(st, ast.AugAssign) else (st.targets[0] if isinstance(st, ast.Assign) and len(st.targets) == 1 else None)
        if isinstance(tgt, ast.Subscript) and isinstance(tgt.value, ast.Name) and tgt.value.id in narrow:
            sb = inf.bits(st.value)
            b, name, line = narrow[tgt.value.id]
            if sb is not None and sb >= 32:
                out.append((st.lineno, tgt.value.id, name, b, sb, unparse(st.value)[:60]))
    for c in ast.walk(fn):
        if isinstance(c, ast.Call) and isinstance(c.func, ast.Attribute) and c.func.attr == "astype" and c.args:
            b = INT_BITS.get(_dtype_name(c.args[0]) or "")
            sb = inf.bits(c.func.value)
            if b is not None and b < 32 and sb is not None and sb >= 32:
                out.append((c.lineno, unparse(c.func.value)[:40], _dtype_name(c.args[0]), b, sb, unparse(c.func.value)[:60]))
    return out


def int_narrowing(ctx, rule_id="INT-NARROWING"):
    r = ctx.rule(rule_id, "no integer array of fewer than 32 bits receives the values of a 32/64-bit integer array or of a size-derived integer (NumPy wraps silently: offsets and indices beyond 65535 would be wrong) - package-wide, with dtype inference through locals and same-class / same-module calls", 1)
    n, bad = 0, 0
    for rel in ctx.repo.py_files("bempp_cl"):
        m = ctx.repo.mod(rel)
        for qn, fn in m.functions.items():
            if "<" in qn:
                continue
            n += 1
            for line, arr, name, b, sb, rhs in sites(m, qn, fn):
                bad += 1
                r.fail("%s::%s %s" % (rel.rsplit("/", 1)[-1], qn, arr), rel, qn, line, "store into the %s array `%s`" % (name, arr),
                       "`%s` is allocated with %d bits (%s) and receives `%s`, a %d-bit integer: values beyond %d wrap silently" % (arr, b, name, rhs, sb, 2 ** b - 1))
    if n < 400:
        raise AnalysisError("integer width lint: only %d functions scanned" % n)
    if not bad:
        r.ok("%d functions, no narrow integer array receives wide integers" % n)
    from .src import Module

    def mini(src):
        m = Module.__new__(Module)
        tree = ast.parse(src)
        m.rel, m.tree, m.classes, m.functions, m.aliases, m.assigns = "x.py", tree, {}, {}, {}, {}
        for c in tree.body:
            m.classes[c.name] = c
            for s in c.body:
                m.functions[c.name + "." + s.name] = s
        return m

    src = ("class R:\n    def _edge(self):\n        v = _np.array([[-1, 0, 4], [1, -1, 2]])\n        return self.number_of_points('c') + 3 * v\n"
           "    def _vec(self):\n        e = self._edge()\n        t = _np.empty(self.index_count['all'], dtype='%s')\n        t[:4] = 0\n        t[4:] = e[self.adj[4, :], self.adj[5, :]]\n        return t\n")
    mp, mn = mini(src % "uint16"), mini(src % "uint32")
    r.must_fire(len(sites(mp, "R._vec", mp.functions["R._vec"])) == 1 and not sites(mn, "R._vec", mn.functions["R._vec"]), "16-bit offset array filled from an int64 table")
