"""Kernel selection and forwarding glue in numba_kernels.py that the launch-site rules take for granted."""

import ast

from . import dispatch
from . import kernels as K
from .assemblers import SPARSE_KERNEL_SIG
from .core import AnalysisError
from .src import arg_names, unparse

NK = "bempp_cl/core/numba_kernels.py"


def mode_problems(ctx):
    """Per mode, what is wrong with the pair select_numba_kernels returns (names of the local dicts play no part):
    subscripts by assembly_type / kernel_type of the descriptor; every mode its own assembler registry; regular,
    singular and sparse their own kernel registry; potential the kernel registry of regular."""
    fn = ctx.repo.mod(NK).fn("select_numba_kernels")
    D = arg_names(fn)[0]
    roles = K.registry_roles(ctx)
    probs = {m: [] for m in roles}
    for m, (a, k, sa_, sk) in roles.items():
        if sa_ != D + ".assembly_type":
            probs[m].append("mode %r indexes its assembler registry by `%s`, expected the descriptor's assembly_type" % (m, sa_))
        if sk != D + ".kernel_type":
            probs[m].append("mode %r indexes its kernel registry by `%s`, expected the descriptor's kernel_type" % (m, sk))
        for m2, (a2, k2, _, _) in roles.items():
            if m2 == m:
                continue
            if a2 == a:
                probs[m].append("modes %r and %r return their assembler from the same registry `%s`" % (m, m2, a))
            if k2 == k and {m, m2} != {"regular", "potential"}:
                probs[m].append("modes %r and %r return their kernel from the same registry `%s`" % (m, m2, k))
        if a == k:
            probs[m].append("mode %r returns assembler and kernel from the same registry `%s`" % (m, a))
    if roles["potential"][1] != roles["regular"][1]:
        for m in ("regular", "potential"):
            probs[m].append("mode 'potential' takes its kernel from `%s`, mode 'regular' from `%s`: boundary operator and potential no longer evaluate the same Green's function object" % (roles["potential"][1], roles["regular"][1]))
    return probs


def select_modes(ctx):
    """select_numba_kernels(descriptor, mode): (assembly function of that mode's registry, kernel of the matching registry)."""
    r = ctx.rule("SELECT-MODES", "select_numba_kernels: mode regular / singular / sparse / potential returns (assembler registered for the mode [assembly_type], kernel of the mode's kernel registry [kernel_type]); potentials use the regular kernels; other modes are rejected", 5)
    fn = ctx.repo.mod(NK).fn("select_numba_kernels")
    p = arg_names(fn)
    D, M = p[0], p[1]
    probs = mode_problems(ctx)
    for mode in K.ROLE_NAMES:
        r.check(not probs[mode], "mode " + mode, NK, fn.name, fn.lineno, "kernel selection for mode " + mode, "; ".join(probs[mode]))
    kind, node = dispatch.select(fn, {M: "collocation"})
    r.check(kind == "raise", "unknown mode", NK, fn.name, fn.lineno, "kernel selection for an unknown mode", "an unknown mode is not rejected")


def sparse_forward(ctx):
    """default_sparse_kernel hands each of its parameters to the element kernel in the slot of the same role."""
    r = ctx.rule("SPARSE-FORWARD", "default_sparse_kernel calls the element kernel once per listed element with its own parameters in the element-kernel signature order (test before trial) and the loop position as element index", 1)
    fn = ctx.repo.mod(NK).fn("default_sparse_kernel")
    p = arg_names(fn)
    loops = [l for l in ast.walk(fn) if isinstance(l, ast.For) and isinstance(l.target, ast.Name)]
    calls = [c for c in ast.walk(fn) if isinstance(c, ast.Call) and isinstance(c.func, ast.Name) and c.func.id in p]
    ok, msg = None, "no single call of the kernel parameter inside one loop over the elements"
    if len(loops) == 1 and len(calls) == 1:
        lp, c = loops[0], calls[0]
        I = lp.target.id
        it = unparse(lp.iter).replace(" ", "")
        n_ok = False
        for st in fn.body:
            if isinstance(st, ast.Assign) and isinstance(st.targets[0], ast.Name) and unparse(st.value).replace(" ", "") in ("len(elements)", "elements.shape[0]"):
                n_ok = it.endswith("range(%s)" % st.targets[0].id)
        n_ok = n_ok or it.endswith("range(len(elements))")
        got = [unparse(a) for a in c.args]
        exp = [I if s == "element_index" else s for s in SPARSE_KERNEL_SIG]
        ok = got == exp and not c.keywords and n_ok and all(s in p for s in SPARSE_KERNEL_SIG if s != "element_index")
        msg = "the element kernel receives %s, expected %s; loop over all listed elements: %s" % (got, exp, n_ok)
    r.check(ok, "default_sparse_kernel", NK, fn.name, fn.lineno, "sparse kernel forwarding", msg)
