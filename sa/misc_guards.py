"""Small definitional rules found missing by the mutation scan (tools/mutscan.py): each is the *definition* another rule
relies on (what `is_compatible` means, how many global dofs a dof map has, which grids a sparse operator accepts, what an
uncoloured element looks like)."""

import ast

from . import dispatch, roles
from .core import AnalysisError
from .rwgdofs import _sentinel
from .src import arg_names, unparse

SP = "bempp_cl/api/space/space.py"
SPA = "bempp_cl/core/sparse_assembler.py"


def compat_definition(ctx):
    """C14: FunctionSpace.is_compatible(other) == check_if_compatible(self, other): same id, else equal hashes of the
    compatible (barycentric) representations; anything that cannot be represented is incompatible."""
    r = ctx.rule("COMPAT-DEF", "space compatibility: is_compatible is ==, == is check_if_compatible; that is True for equal ids, otherwise equality of the hashes of the compatible representations, False when none exists", 5)
    m = ctx.repo.mod(SP)
    f1 = m.fn("FunctionSpace.is_compatible")
    o = arg_names(f1)[1]
    ret = [n for n in ast.walk(f1) if isinstance(n, ast.Return)]
    ok1 = len(ret) == 1 and isinstance(ret[0].value, ast.Compare) and len(ret[0].value.ops) == 1 and isinstance(ret[0].value.ops[0], ast.Eq) and {unparse(ret[0].value.left), unparse(ret[0].value.comparators[0])} == {"self", o}
    ok1 = ok1 or (len(ret) == 1 and unparse(ret[0].value).replace(" ", "") in ("check_if_compatible(self,%s)" % o, "check_if_compatible(%s,self)" % o))
    r.check(ok1, "is_compatible", SP, "FunctionSpace.is_compatible", f1.lineno, "is_compatible definition", "is_compatible returns `%s`, not the equality of the two spaces" % (unparse(ret[0].value) if ret else None))
    f2 = m.fn("FunctionSpace.__eq__")
    o2 = arg_names(f2)[1]
    ret = [n for n in ast.walk(f2) if isinstance(n, ast.Return)]
    ok2 = len(ret) == 1 and unparse(ret[0].value).replace(" ", "") in ("check_if_compatible(self,%s)" % o2, "check_if_compatible(%s,self)" % o2)
    r.check(ok2, "__eq__", SP, "FunctionSpace.__eq__", f2.lineno, "space equality definition", "__eq__ returns `%s`, not check_if_compatible(self, other)" % (unparse(ret[0].value) if ret else None))
    f3 = m.fn("check_if_compatible")
    a, b = arg_names(f3)[:2]
    body = [s for s in f3.body if not (isinstance(s, ast.Expr) and isinstance(s.value, ast.Constant))]
    pre = [s for s in body if not isinstance(s, ast.Try)]
    tr = [s for s in body if isinstance(s, ast.Try)]
    shim = ast.FunctionDef(name="c", args=f3.args, body=pre or [ast.Pass()], decorator_list=[], lineno=f3.lineno, col_offset=0)
    k_same, n_same = dispatch.select(shim, {"%s.id" % a: "x", "%s.id" % b: "x"})
    k_diff, n_diff = dispatch.select(shim, {"%s.id" % a: "x", "%s.id" % b: "y"})
    r.check(k_same == "return" and isinstance(n_same, ast.Constant) and n_same.value is True and (n_diff is None), "equal ids", SP, "check_if_compatible", f3.lineno, "compatibility of equal ids",
            "two references to spaces with the same id are reported as %s; different ids decide %s before the representations are compared" % (unparse(n_same) if n_same is not None else None, unparse(n_diff) if n_diff is not None else "nothing"))
    okt, msg = None, "no try block compares the hashes of the compatible representations"
    if len(tr) == 1:
        t = tr[0]
        asg = [s for s in t.body if isinstance(s, ast.Assign) and isinstance(s.value, ast.Call) and unparse(s.value.func) == "return_compatible_representation"]
        rets = [s for s in t.body if isinstance(s, ast.Return)]
        if len(asg) == 1 and len(rets) == 1 and isinstance(asg[0].targets[0], ast.Tuple) and len(asg[0].targets[0].elts) == 2:
            n1, n2 = (unparse(x) for x in asg[0].targets[0].elts)
            args = [unparse(x) for x in asg[0].value.args]
            v = rets[0].value
            cmp_ok = isinstance(v, ast.Compare) and len(v.ops) == 1 and isinstance(v.ops[0], ast.Eq) and {unparse(v.left), unparse(v.comparators[0])} == {n1 + ".hash", n2 + ".hash"}
            okt = cmp_ok and sorted(args) == sorted([a, b])
            msg = "representations of %s compared by `%s`" % (args, unparse(v))
    r.check(okt, "hash comparison", SP, "check_if_compatible", f3.lineno, "compatibility by representation hashes", msg)
    okh = len(tr) == 1 and bool(tr[0].handlers) and all(len(h.body) == 1 and isinstance(h.body[0], ast.Return) and isinstance(h.body[0].value, ast.Constant) and h.body[0].value.value is False for h in tr[0].handlers)
    r.check(okh, "no representation", SP, "check_if_compatible", f3.lineno, "compatibility when no representation exists", "spaces without a common representation are not reported as incompatible")


def dof_counts(ctx):
    """C09: the number of global dofs of a dof map is 1 + its largest entry (dofs are numbered 0 .. n-1)."""
    r = ctx.rule("DOF-COUNT", "number of dofs of a local-to-global map = 1 + its largest entry (global2local has one list per dof; grid dof count of a space)", 2)
    m = ctx.repo.mod(SP)
    fn = m.fn("invert_local2global")
    L = arg_names(fn)[0]
    d = roles.Defs(fn)
    lists = [s for s in fn.body if isinstance(s, ast.Assign) and isinstance(s.value, ast.ListComp) and isinstance(s.value.elt, ast.List) and not s.value.elt.elts]
    ok = False
    got = None
    if len(lists) == 1:
        it = lists[0].value.generators[0].iter
        got = roles.canon(it, d).replace(" ", "")
        ok = got in (roles.expect("range(1 + _np.max(L))", d, lists[0].lineno, L=L), roles.expect("range(1 + L.max())", d, lists[0].lineno, L=L))
    r.check(ok, "invert_local2global", SP, "invert_local2global", fn.lineno, "number of global2local lists", "global2local gets one list per element of `%s`, expected range(1 + max(local2global))" % got)
    cls = m.classes.get("FunctionSpace")
    hits = []
    for st in ast.walk(cls):
        if isinstance(st, ast.Assign) and unparse(st.targets[0]) == "self._grid_dof_count":
            f = [x for x in ast.walk(cls) if isinstance(x, ast.FunctionDef) and any(y is st for y in ast.walk(x))][0]
            hits.append((st, roles.canon(st.value, roles.Defs(f)).replace(" ", ""), f))
    ok2 = len(hits) == 1 and hits[0][1] in (roles.expect("1 + _np.max(self._local2global_map)", roles.Defs(hits[0][2]), hits[0][0].lineno), roles.expect("1 + self._local2global_map.max()", roles.Defs(hits[0][2]), hits[0][0].lineno))
    r.check(ok2, "FunctionSpace grid dof count", SP, "FunctionSpace.__init__", hits[0][0].lineno if hits else cls.lineno, "grid dof count", "the grid dof count is `%s`, expected 1 + max(local2global)" % (hits[0][1] if hits else None))


ROWS = [(1, 1, 1), (1, -1, 0), (0, 1, -1), (-1, 0, 1), (1, 0, 0), (0, 0, -1), (1, 1, 0), (-1, -1, -1), (1, -1, -1), (0, 0, 0), (2, -1, -1)]


def _row_value(e, M, E, row, env, K=None, k=None):
    """Value of an expression over the multiplier table M for the element E whose row of multipliers is `row`
    (finite-domain evaluation by the checker: sums / any / all / counts along the row, comparisons, boolean operators).
    Names bound before the loop to such expressions are looked up in env (name -> defining expression)."""
    import operator

    class _N:  # the few NumPy reductions / maps the evaluation needs, on plain lists (the checker depends on the standard library only)
        @staticmethod
        def array(v):
            return list(v)

        @staticmethod
        def _map(f, a, b=None):
            if b is None:
                return [f(x) for x in a] if isinstance(a, list) else f(a)
            if isinstance(a, list) and isinstance(b, list):
                return [f(x, y) for x, y in zip(a, b)]
            if isinstance(a, list):
                return [f(x, b) for x in a]
            if isinstance(b, list):
                return [f(a, y) for y in b]
            return f(a, b)

        logical_not = staticmethod(lambda a: _N._map(lambda x: not x, a))
        abs = staticmethod(lambda a: _N._map(abs, a))
        sign = staticmethod(lambda a: _N._map(lambda x: (x > 0) - (x < 0), a))
        square = staticmethod(lambda a: _N._map(lambda x: x * x, a))
        sum = staticmethod(lambda a: sum(a) if isinstance(a, list) else a)
        any = staticmethod(lambda a: any(a) if isinstance(a, list) else bool(a))
        all = staticmethod(lambda a: all(a) if isinstance(a, list) else bool(a))
        max = staticmethod(lambda a: max(a) if isinstance(a, list) else a)
        min = staticmethod(lambda a: min(a) if isinstance(a, list) else a)
        count_nonzero = staticmethod(lambda a: sum(1 for x in a if x) if isinstance(a, list) else int(bool(a)))

        @staticmethod
        def prod(a):
            p = 1
            for x in (a if isinstance(a, list) else [a]):
                p *= x
            return p

    _n = _N
    _cmp = {ast.Eq: operator.eq, ast.NotEq: operator.ne, ast.Gt: operator.gt, ast.Lt: operator.lt, ast.GtE: operator.ge, ast.LtE: operator.le}
    _bin = {ast.Mult: operator.mul, ast.Add: operator.add, ast.Sub: operator.sub, ast.Pow: operator.pow}

    def arr(x):
        """row-valued sub-expression: M[E], M[E, :], M (whole table, reduced along axis 1), abs / comparisons of those"""
        if isinstance(x, ast.Name) and x.id == M:
            return _n.array(row)
        if isinstance(x, ast.Name) and x.id in env:
            return arr(env[x.id])
        if isinstance(x, ast.Subscript) and isinstance(x.value, ast.Name) and x.value.id == M:
            s = unparse(x.slice).replace(" ", "")
            if s in (E, "%s,:" % E, "(%s,slice(None,None,None))" % E):
                return _n.array(row)
            if K is not None and s in ("%s,%s" % (E, K), "(%s,%s)" % (E, K)):
                return row[k]
            raise AnalysisError("invert_local2global: multiplier table indexed by `%s`" % s)
        if isinstance(x, ast.Compare) and len(x.ops) == 1:
            return _N._map(_cmp[type(x.ops[0])], arr(x.left), arr(x.comparators[0]))
        if isinstance(x, ast.Constant):
            return x.value
        if isinstance(x, ast.UnaryOp) and isinstance(x.op, ast.Not):
            return _n.logical_not(arr(x.operand))
        if isinstance(x, ast.UnaryOp) and isinstance(x.op, ast.USub):
            return _N._map(operator.neg, arr(x.operand))
        if isinstance(x, ast.BoolOp):
            vals = [bool(arr(v)) for v in x.values]
            return all(vals) if isinstance(x.op, ast.And) else any(vals)
        if isinstance(x, ast.BinOp) and type(x.op) in _bin:
            return _N._map(_bin[type(x.op)], arr(x.left), arr(x.right))
        if isinstance(x, ast.Subscript) and isinstance(x.slice, ast.Name) and x.slice.id == E:
            return arr(x.value)  # a per-element vector computed before the loop, read at this element
        if K is not None and isinstance(x, ast.Subscript) and isinstance(x.slice, ast.Name) and x.slice.id == K:
            v = arr(x.value)
            if not isinstance(v, list):
                raise AnalysisError("invert_local2global: `%s` indexes a scalar" % unparse(x)[:60])
            return v[k]
        if isinstance(x, ast.Call):
            f = unparse(x.func).split(".")[-1]
            recv = x.func.value if isinstance(x.func, ast.Attribute) and not (isinstance(x.func.value, ast.Name) and x.func.value.id in ("_np", "np", "numpy")) else None
            args = ([recv] if recv is not None else []) + list(x.args)
            if f in ("sum", "any", "all", "max", "min", "count_nonzero", "prod") and args:
                return getattr(_n, f)(arr(args[0]))
            if f in ("abs", "absolute", "fabs", "sign", "square") and len(args) == 1:
                return getattr(_n, "abs" if f in ("absolute", "fabs") else f)(arr(args[0]))
            if f == "len" and len(args) == 1:
                return len(arr(args[0]))
        raise AnalysisError("invert_local2global: expression outside the row subset: %s" % unparse(x)[:60])

    return arr(e)


def _decide_tests(body, M, E, row, env, K, k):
    """The slot loop's body with every `if` test replaced by its value for this row of multipliers and this slot."""
    import copy

    class T(ast.NodeTransformer):
        def visit_If(self, node):
            node.test = ast.Constant(bool(_row_value(node.test, M, E, row, env, K, k)))
            self.generic_visit(node)
            return node

    out = [T().visit(copy.deepcopy(st)) for st in body]
    for st in out:
        ast.fix_missing_locations(st)
    return out


def _slots(fn):
    """[(row, entered slots, skipped as a whole, loop over all elements)] of an invert_local2global-shaped function."""
    L, M = arg_names(fn)[:2]
    loops = [s for s in fn.body if isinstance(s, ast.For) and any(isinstance(c, ast.Call) and isinstance(c.func, ast.Attribute) and c.func.attr == "append" for c in ast.walk(s))]
    if len(loops) != 1 or not isinstance(loops[0].target, ast.Name):
        raise AnalysisError("invert_local2global: the loop over the elements that fills the lists was not found")
    lp = loops[0]
    E = lp.target.id
    pre = {s.targets[0].id: s.value for s in fn.body if isinstance(s, ast.Assign) and isinstance(s.targets[0], ast.Name) and s.lineno < lp.lineno}
    full = unparse(lp.iter).replace(" ", "") in ("range(%s)" % n for n, v in pre.items() if unparse(v).replace(" ", "") in ("len(%s)" % L, "%s.shape[0]" % L)) or unparse(lp.iter).replace(" ", "") in ("range(len(%s))" % L, "range(%s.shape[0])" % L)
    inner = [s for s in lp.body if isinstance(s, ast.For)]
    local = {s.targets[0].id: unparse(s.value).replace(" ", "") for s in lp.body if isinstance(s, ast.Assign) and isinstance(s.targets[0], ast.Name)}
    it = unparse(inner[0].iter).replace(" ", "") if len(inner) == 1 else ""
    if it.startswith("enumerate(") and it[10:-1] in local:
        it = "enumerate(%s)" % local[it[10:-1]]
    if len(inner) != 1 or not (isinstance(inner[0].target, ast.Tuple) and len(inner[0].target.elts) == 2 and all(isinstance(t, ast.Name) for t in inner[0].target.elts)) \
            or it != "enumerate(%s[%s])" % (L, E):
        raise AnalysisError("invert_local2global: inner loop is not `for local_index, dof in enumerate(local2global_map[element])`")
    K, D = (t.id for t in inner[0].target.elts)
    out = []
    for row in ROWS:
        entered, skipped = [], False
        # statements of the element loop before the inner loop: guards that may skip the element
        for st in lp.body:
            if st is inner[0]:
                break
            if isinstance(st, ast.If) and any(isinstance(x, ast.Continue) for x in st.body) and not st.orelse:
                if bool(_row_value(st.test, M, E, row, pre)):
                    skipped = True
            elif isinstance(st, ast.Assign) and isinstance(st.targets[0], ast.Name):
                pre = dict(pre, **{st.targets[0].id: st.value})
            else:
                raise AnalysisError("invert_local2global: statement before the slot loop is not modelled: %s" % unparse(st)[:60])
        if not skipped:
            for k in range(3):
                effs = dispatch.effects(_decide_tests(inner[0].body, M, E, row, pre, K, k), {}, "invert_local2global")
                calls = [e[1].replace(" ", "") for e in effs if e[0] == "call"]
                if calls:
                    if calls != ["global2local_map[%s].append((%s,%s))" % (D, E, K)] and not (len(calls) == 1 and calls[0].endswith("[%s].append((%s,%s))" % (D, E, K))):
                        raise AnalysisError("invert_local2global: unexpected effect %s" % calls)
                    entered.append(k)
        out.append((row, entered, skipped, full, lp.lineno))
    return out


def inverse_dof_map(ctx):
    """C09 / C16: global2local lists (element, local index) for EVERY slot whose multiplier is non-zero - the colouring
    and the dual-space builders read the neighbours of a dof from it."""
    r = ctx.rule("INVERT-L2G", "invert_local2global enters (element, local index) under dof local2global[element, local index] exactly when that slot's multiplier is non-zero, for every element (rows with mixed signs and zeros included)", len(ROWS))
    fn = ctx.repo.mod(SP).fn("invert_local2global")
    for row, entered, skipped, full, line in _slots(fn):
        want = [k for k in range(3) if row[k] != 0]
        r.check(full and entered == want, "multipliers %s" % (row,), SP, fn.name, line, "slots entered for a row of multipliers %s" % (row,),
                "an element whose local multipliers are %s is entered for its slots %s, expected %s%s%s" % (row, entered, want, " (the element is skipped as a whole)" if skipped else "", "" if full else "; the loop does not run over all elements"))
    bad = ast.parse("def f(m, mult):\n    g = [[] for _ in range(1 + _np.max(m))]\n    for e in range(len(m)):\n        for l, d in enumerate(m[e]):\n            g[d].append((e, l))\n    return g").body[0]
    r.must_fire(any(entered != [k for k in range(3) if row[k] != 0] for row, entered, _, _, _ in _slots(bad)), "global2local without multiplier test")


def sparse_grid_guard(ctx):
    """C13: a sparse operator between spaces on different grids is rejected (its element loop pairs element e with element e)."""
    r = ctx.rule("SPARSE-GRID-GUARD", "sparse assembly raises when domain and dual_to_range live on different grids and does not when they share the grid", 2)
    m = ctx.repo.mod(SPA)
    fn = m.fn("SparseAssembler.assemble")
    ifs = [s for s in ast.walk(fn) if isinstance(s, ast.If) and any(isinstance(x, ast.Raise) for x in s.body) and ".grid" in unparse(s.test)]
    if len(ifs) != 1:
        raise AnalysisError("SparseAssembler.assemble: grid guard not found")
    chains = sorted({unparse(n) for n in ast.walk(ifs[0].test) if isinstance(n, ast.Attribute) and n.attr == "grid"})
    if len(chains) != 2:
        raise AnalysisError("SparseAssembler.assemble: grid guard does not compare two grids")
    for same in (True, False):
        effs = dispatch.effects([ifs[0]], {chains[0]: "g", chains[1]: "g" if same else "h"}, "SparseAssembler.assemble")
        raised = any(e[0] == "raise" for e in effs)
        r.check(raised != same, "grids %s" % ("equal" if same else "different"), SPA, "SparseAssembler.assemble", ifs[0].lineno, "sparse grid guard (%s)" % ("same grid" if same else "different grids"),
                "spaces on %s are %s" % ("the same grid" if same else "different grids", "rejected" if raised else "accepted"))


def colour_sentinel(ctx):
    """C16: `not coloured yet` must not be a colour: the colour map starts negative and colours are taken from range(...)."""
    r = ctx.rule("PAR-COLOUR-SENTINEL", "the colour map is initialised with a negative value, so elements outside the support and elements not coloured yet never share a colour class with a coloured element", 1)
    fn = ctx.repo.mod(SP).fn("FunctionSpace._compute_color_map")
    init = [s for s in fn.body if isinstance(s, ast.Assign) and unparse(s.targets[0]) == "self._color_map"]
    s = _sentinel(init[0].value, fn) if len(init) == 1 else None
    r.check(s is not None and s < 0, "_compute_color_map", SP, "FunctionSpace._compute_color_map", fn.lineno, "colour map sentinel", "the colour map is initialised with %s: unsupported / uncoloured elements carry a valid colour and are grouped with the elements of that colour" % s)
    # the colouring a space assembles with is computed by this call from this space's own dof map: it is not taken from
    # (or shared through) process-wide state, and no path leaves the function before the greedy loop has run
    from . import state

    r2 = ctx.rule("PAR-COLOUR-OWN", "every space computes its own colouring: _compute_color_map reads and writes no module-level table, stores one freshly allocated array, and has no exit before the colouring loop", 1)
    m = ctx.repo.mod(SP)
    shared = sorted(set(state.module_state(m.tree)) & {n.id for n in ast.walk(fn) if isinstance(n, ast.Name)})
    stores = [st for st in ast.walk(fn) if isinstance(st, ast.Assign) and any(unparse(t) == "self._color_map" for t in st.targets)]
    loops = [st for st in fn.body if isinstance(st, ast.For)]
    early = [st.lineno for st in ast.walk(fn) if isinstance(st, ast.Return) and (not loops or st.lineno < loops[0].lineno)]
    probs = []
    memo_ok = False
    if shared:
        # a memo table is harmless exactly when its key determines the dof map the colouring is computed from (the
        # dependency analysis of C18's FX-PROCESS-STATE decides that)
        sites = [w for w in state.writes(m.tree) if w[0] is fn and w[5] is not None]
        gaps = sorted({g for w in sites for g in state.memo_key_gap(m.tree, fn, w[1], w[5], w[6])})
        if sites and not gaps:
            memo_ok = True
        else:
            probs.append("the function uses the module-level table(s) %s whose key does not determine %s: a colouring computed for one space (one dof map) is handed to another space" % (shared, gaps or "the stored value"))
    if memo_ok:
        pass
    elif len(stores) != 1 or not isinstance(stores[0].value, (ast.Call, ast.UnaryOp, ast.BinOp)):
        probs.append("self._color_map is assigned %d time(s) (%s), expected one fresh allocation" % (len(stores), [unparse(st.value)[:40] for st in stores]))
    if early and not memo_ok:
        probs.append("the function can return (line %s) before the colouring loop" % early)
    r2.check(not probs, "_compute_color_map", SP, "FunctionSpace._compute_color_map", fn.lineno, "colouring computed per space", "; ".join(probs))


def projection_dtype(ctx):
    """C13: the projection vector of a callable is real only for callables declared real."""
    GF = "bempp_cl/api/assembly/grid_function.py"
    r = ctx.rule("GF-PROJECT-DTYPE", "GridFunction(fun=...): the projection buffer is float64 for a real_callable and complex128 for a complex_callable (a complex function projected into a real buffer loses its imaginary part)", 2)
    fn = ctx.repo.mod(GF).fn("GridFunction.__init__")
    ifs = [s for s in ast.walk(fn) if isinstance(s, ast.If) and "bempp_type" in unparse(s.test)]
    if len(ifs) != 1:
        raise AnalysisError("GridFunction.__init__: the switch on the callable's bempp_type was not found")
    chain = [unparse(n) for n in ast.walk(ifs[0].test) if isinstance(n, ast.Attribute) and n.attr == "bempp_type"][0]
    alloc = [s for s in ast.walk(fn) if isinstance(s, ast.Assign) and isinstance(s.value, ast.Call) and any(k.arg == "dtype" and isinstance(k.value, ast.Name) for k in s.value.keywords) and s.lineno > ifs[0].lineno
             and "projections" in unparse(s.targets[0])]
    if not alloc:
        raise AnalysisError("GridFunction.__init__: projection buffer allocation with a dtype variable not found")
    dname = [k.value.id for k in alloc[0].value.keywords if k.arg == "dtype"][0]
    for kind, want in (("real", "float64"), ("complex", "complex128")):
        effs = dispatch.effects([ifs[0]], {chain: kind, "function_parameters": "‹p›"}, "GridFunction.__init__")
        got = [e[2] for e in effs if e[0] == "set" and e[1] == dname]
        r.check(got == [want], "%s callable" % kind, GF, "GridFunction.__init__", ifs[0].lineno, "projection dtype for a %s callable" % kind, "a %s callable is projected into a buffer of dtype %s, expected %s" % (kind, got, want))
