"""C09: support of a Buffa-Christiansen space (which barycentric sub-triangles carry it).

`_get_barycentric_support`: the coarse support is the RWG space's support; unless truncate_at_segment_edge it is extended
by every element around both end points of every dof's edge (a BC function lives on the two vertex patches of its edge);
the barycentric support is all six children 6e + j of every coarse support element.  A support that is too small cuts
the function off at an interior edge: its normal component is then discontinuous there.
"""

import ast

from . import dispatch, roles
from .core import AnalysisError
from .src import arg_names, unparse

GRID = "bempp_cl/api/grid/grid.py"
FN = "_get_barycentric_support"


def analyse(fn):
    p = arg_names(fn)
    if len(p) != 4:
        raise AnalysisError("%s: signature changed" % FN)
    TR, G, BG, CS = p
    defs = roles.Defs(fn)
    out = []
    KEEP = tuple({n.id for n in ast.walk(fn) if isinstance(n, ast.Name)})
    S = roles.stores(fn.body, defs, keep=KEEP, lv=False)
    ns = lambda t: t.replace(" ", "")
    # text of an expression with the locals that merely name a fragment read through (`keep`: the locals whose ROLE the
    # comparison is phrased in, e.g. the dof's (element, local index) list)
    val = lambda node, keep=(): ns(unparse(roles.inline(node, defs, keep=tuple(keep))))
    # coarse support starts as the space's support
    allocs = [s for s in S if s.op == "=" and isinstance(s.tnode, ast.Name) and not s.loops and isinstance(s.vnode, ast.Call) and unparse(s.vnode.func).split(".")[-1] == "zeros"
              and s.vnode.args and val(s.vnode.args[0]) in ("%s.entity_count(0)" % G, "%s.number_of_elements" % G)]
    if len(allocs) != 1:
        raise AnalysisError("%s: coarse support flag array (one entry per coarse element) not found" % FN)
    SUP = allocs[0].target
    init = [s for s in S if s.op == "=" and not s.loops and not s.guards and ns(unparse(s.tnode)) == "%s[%s.support_elements]" % (SUP, CS) and unparse(s.vnode) == "True"]
    out.append(("coarse support starts as the space's support", len(init) == 1, "the flag array is not set to True at %s.support_elements" % CS, allocs[0].node.lineno))
    # extension
    ifs = [s for s in fn.body if isinstance(s, ast.If) and TR in unparse(s.test)]
    if len(ifs) != 1:
        raise AnalysisError("%s: no single test of %s" % (FN, TR))
    for tr in (True, False):
        effs = dispatch.effects([ifs[0]], {TR: tr}, FN)
        has = bool(effs)
        out.append(("extension when truncate_at_segment_edge=%s" % tr, has != tr, "with truncate_at_segment_edge=%s the support %s extended" % (tr, "is" if has else "is not"), ifs[0].lineno))
    body = ifs[0].body if not isinstance(ifs[0].test, ast.UnaryOp) else ifs[0].body
    loops = [l for l in ast.walk(ifs[0]) if isinstance(l, ast.For)]
    lD = [l for l in loops if ns(unparse(l.iter)) == "range(%s.global_dof_count)" % CS and isinstance(l.target, ast.Name)]
    okd = len(lD) == 1
    out.append(("every dof extends the support", okd, "the extension does not run over range(%s.global_dof_count)" % CS, ifs[0].lineno))
    if not okd:
        return out
    D = lD[0].target.id
    names = {}
    for st in ast.walk(lD[0]):
        if isinstance(st, ast.Assign) and isinstance(st.targets[0], ast.Name):
            names[st.targets[0].id] = st
    ld = [n for n, st in names.items() if val(st.value) == "%s.global2local[%s]" % (CS, D)]
    oke = False
    E = None
    if len(ld) == 1:
        L = ld[0]
        want = {"%s.data().element_edges[%s[0][1],%s[0][0]]" % (G, L, L), "%s.element_edges[%s[0][1],%s[0][0]]" % (G, L, L)}
        e = [n for n, st in names.items() if val(st.value, (L,)) in want]
        if len(e) == 1:
            oke, E = True, e[0]
    out.append(("edge of the dof", oke, "no local holds element_edges[local index, element] of the dof's first (element, local index) pair", lD[0].lineno))
    if not oke:
        return out
    lV = [l for l in ast.walk(lD[0]) if isinstance(l, ast.For) and isinstance(l.target, ast.Name) and ns(unparse(l.iter)) == "range(2)"]
    okv = False
    if len(lV) == 1:
        v = lV[0].target.id
        vx = [n for n, st in names.items() if val(st.value, (L, E)) in ("%s.data().edges[%s,%s]" % (G, v, E), "%s.edges[%s,%s]" % (G, v, E))]
        if len(vx) == 1:
            VX = vx[0]
            st_ = [n for n, s in names.items() if val(s.value, (L, E, VX)) == "%s.vertex_neighbors.indexptr[%s]" % (G, VX)]
            en_ = [n for n, s in names.items() if roles.canon(roles.inline(s.value, defs, keep=(L, E, VX)), roles._NoDefs()).replace(" ", "")
                   == roles.canon(ast.parse("%s.vertex_neighbors.indexptr[%s+1]" % (G, VX), mode="eval").body, roles._NoDefs()).replace(" ", "")]
            if len(st_) == 1 and len(en_) == 1:
                lc = [l for l in ast.walk(lV[0]) if isinstance(l, ast.For) and ns(unparse(l.iter)) == "%s.vertex_neighbors.indices[%s:%s]" % (G, st_[0], en_[0]) and isinstance(l.target, ast.Name)]
                if len(lc) == 1:
                    c = lc[0].target.id
                    okv = [ns(unparse(x)) for x in lc[0].body] == ["%s[%s]=True" % (SUP, c)]
    out.append(("both end points: all elements around the vertex join the support", okv, "the extension is not `for v in range(2): vertex = edges[v, edge]; for cell in vertex_neighbors.indices[indexptr[vertex] : indexptr[vertex + 1]]: support[cell] = True`", lD[0].lineno))
    # barycentric children
    ret = [s for s in fn.body if isinstance(s, ast.Return)]
    if len(ret) != 1 or not isinstance(ret[0].value, ast.Tuple) or len(ret[0].value.elts) != 3:
        raise AnalysisError("%s: does not return (support flags, size, barycentric support elements)" % FN)
    BS = unparse(ret[0].value.elts[2])
    d2 = roles.Defs(fn)
    bdef = [s for s in fn.body if isinstance(s, ast.Assign) and unparse(s.targets[0]) == BS]
    okb = False
    got = None
    if len(bdef) == 1:
        got = roles.canon(bdef[0].value, d2).replace(" ", "")
        lst = roles.canon(ast.parse("_np.array([i for i, j in enumerate(%s) if j])" % SUP, mode="eval").body, roles._NoDefs()).replace(" ", "")
        alts = set()
        for cse in (lst, "nz(%s)" % SUP):
            alts.add(roles.canon(ast.parse("6 * _np.repeat(X, 6) + _np.tile(_np.arange(6), len(X))", mode="eval").body, roles._NoDefs()).replace(" ", "").replace("X", cse))
        okb = got in alts
    out.append(("barycentric support = all six children of every coarse support element", okb, "the barycentric support elements are `%s`, expected 6 * repeat(support elements, 6) + tile(arange(6), number of them)" % (got[:140] if got else None), bdef[0].lineno if bdef else fn.lineno))
    flags = unparse(ret[0].value.elts[0])
    st = [s for s in S if s.op == "=" and not s.loops and not s.guards and ns(unparse(s.tnode)) == "%s[%s]" % (flags, BS) and unparse(s.vnode) == "True"]
    al = [s for s in S if s.op == "=" and s.target == flags and isinstance(s.vnode, ast.Call) and s.vnode.args and ns(unparse(s.vnode.args[0])) == "%s.number_of_elements" % BG]
    out.append(("support flags on the barycentric grid", len(st) == 1 and len(al) == 1, "the returned flag array is not zeros(barycentric elements) set True at the barycentric support elements", ret[0].lineno))
    return out


def bc_support(ctx):
    r = ctx.rule("BC-SUPPORT", "Buffa-Christiansen support: the RWG support, extended (unless truncated) by all elements around both end points of every dof's edge; on the barycentric grid all six children of each of these elements", 8)
    fn = ctx.repo.mod(GRID).fn(FN)
    for inst, ok, msg, line in analyse(fn):
        r.check(ok, inst, GRID, FN, line, inst, msg)
    bad = ast.parse(_POSITIVE).body[0]
    good = ast.parse(_POSITIVE.replace("range(1):  # defect", "range(2):")).body[0]
    r.must_fire(any(not ok for _, ok, _, _ in analyse(bad)) and all(ok for _, ok, _, _ in analyse(good)), "only the first end point of the edge extends the support")


# the checker's own miniature (not repository code)
_POSITIVE = '''
def f(truncate_at_segment_edge, grid, bary_grid, coarse_space):
    coarse_support = _np.zeros(grid.entity_count(0), dtype=_np.bool_)
    coarse_support[coarse_space.support_elements] = True
    if not truncate_at_segment_edge:
        for d in range(coarse_space.global_dof_count):
            local_dofs = coarse_space.global2local[d]
            edge_index = grid.data().element_edges[local_dofs[0][1], local_dofs[0][0]]
            for v in range(1):  # defect
                vertex = grid.data().edges[v, edge_index]
                start = grid.vertex_neighbors.indexptr[vertex]
                end = grid.vertex_neighbors.indexptr[vertex + 1]
                for cell in grid.vertex_neighbors.indices[start:end]:
                    coarse_support[cell] = True
    cse = _np.array([i for i, j in enumerate(coarse_support) if j])
    n = len(cse)
    bse = 6 * _np.repeat(cse, 6) + _np.tile(_np.arange(6), n)
    support = _np.zeros(bary_grid.number_of_elements, dtype=_np.bool_)
    support[bse] = True
    return support, len(bse), bse
'''
