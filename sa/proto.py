"""PROTO: class-protocol lints for the operator algebra (attribute resolution, homomorphism, guards, definite assignment)."""

import ast
import builtins

from .core import AnalysisError
from .src import arg_names, unparse


# ------------------------------------------------------------------ class tables


class ClassInfo:
    def __init__(self, name, node, rel):
        self.name, self.node, self.rel = name, node, rel
        self.bases = [unparse(b) for b in node.bases]
        self.attrs = set()
        self.methods = {}
        for st in node.body:
            if isinstance(st, ast.FunctionDef):
                self.attrs.add(st.name)
                self.methods[st.name] = st
            elif isinstance(st, ast.Assign):
                for t in st.targets:
                    if isinstance(t, ast.Name):
                        self.attrs.add(t.id)
        for n in ast.walk(node):
            if isinstance(n, ast.Attribute) and isinstance(n.value, ast.Name) and n.value.id == "self" and isinstance(n.ctx, ast.Store):
                self.attrs.add(n.attr)


def classes_of(ctx, rel):
    m = ctx.repo.mod(rel)
    return {name: ClassInfo(name, node, rel) for name, node in m.classes.items()}


def chain(classes, name):
    """(list of ClassInfo from name up to the root within the table, closed?)"""
    out = []
    closed = True
    todo = [name]
    seen = set()
    while todo:
        n = todo.pop(0)
        if n in seen:
            continue
        seen.add(n)
        if n == "object":
            continue
        if n not in classes:
            closed = False
            continue
        out.append(classes[n])
        todo.extend(classes[n].bases)
    return out, closed


def all_attrs(classes, name):
    ch, closed = chain(classes, name)
    s = set()
    for c in ch:
        s |= c.attrs
    return s, closed


def subclasses(classes, root):
    out = []
    for n in classes:
        ch, _ = chain(classes, n)
        if any(c.name == root for c in ch):
            out.append(n)
    return out


OBJECT_ATTRS = set(dir(object))


def attribute_resolution(ctx, rule, rel, root, operand_slots):
    """In every class of the family rooted at ``root``: ``self.a`` and ``<operand>.a`` resolve in the (closed) class chain.

    operand_slots: names of instance attributes / constructor parameters that hold another member of the family."""
    classes = classes_of(ctx, rel)
    if root not in classes:
        raise AnalysisError("class %s vanished from %s" % (root, rel))
    root_attrs, root_closed = all_attrs(classes, root)
    fam = subclasses(classes, root)
    # attributes defined anywhere in the family (abstract methods are implemented below the root)
    family_attrs = set()
    for cname in fam:
        family_attrs |= classes[cname].attrs
    root_attrs = root_attrs | family_attrs
    n = 0
    for cname in fam:
        ci = classes[cname]
        own, closed = all_attrs(classes, cname)
        for sub in subclasses(classes, cname):
            own = own | classes[sub].attrs
        for mname, fn in ci.methods.items():
            params = set(arg_names(fn))
            for node in ast.walk(fn):
                if not isinstance(node, ast.Attribute) or not isinstance(node.ctx, ast.Load):
                    continue
                v = node.value
                # self.a
                if isinstance(v, ast.Name) and v.id == "self":
                    if closed:
                        n += 1
                        if node.attr not in own and node.attr not in OBJECT_ATTRS:
                            rule.fail("%s.%s: self.%s" % (cname, mname, node.attr), rel, "%s.%s" % (cname, mname), node.lineno, "self.%s in %s.%s" % (node.attr, cname, mname),
                                      "`self.%s` is not defined by %s or its bases" % (node.attr, cname))
                    continue
                # self._op.a  /  op.a for operand slots typed as the family root
                is_slot = (isinstance(v, ast.Attribute) and isinstance(v.value, ast.Name) and v.value.id == "self" and v.attr in operand_slots) or \
                          (isinstance(v, ast.Name) and v.id in operand_slots and v.id in params)
                if is_slot and root_closed:
                    n += 1
                    if node.attr not in root_attrs and node.attr not in OBJECT_ATTRS:
                        rule.fail("%s.%s: %s.%s" % (cname, mname, unparse(v), node.attr), rel, "%s.%s" % (cname, mname), node.lineno,
                                  "%s.%s in %s.%s" % (unparse(v), node.attr, cname, mname),
                                  "`%s.%s`: %s holds a %s, which defines no attribute `%s`" % (unparse(v), node.attr, unparse(v), root, node.attr))
    if n:
        rule.ok("%s family in %s: %d attribute uses resolved" % (root, rel.split("/")[-1], n))
    return n


# ------------------------------------------------------------------ non-commutative term algebra


def _norm_scalars(s):
    """Normal form of a commuting scalar monomial: x * x⁻¹ cancels, i*i = -1, i⁻¹ = -i.  Returns (sign, letters)."""
    exp = {}
    for x in s:
        if x.endswith("⁻¹"):
            exp[x[:-2]] = exp.get(x[:-2], 0) - 1
        else:
            exp[x] = exp.get(x, 0) + 1
    sign = 1
    if "i" in exp:
        e = exp.pop("i") % 4
        if e >= 2:
            sign, e = -1, e - 2
        if e:
            exp["i"] = 1
    out = []
    for x in sorted(exp):
        out += [x] * exp[x] if exp[x] > 0 else [x + "⁻¹"] * (-exp[x])
    return sign, tuple(sorted(out))


class NC:
    """Polynomial in non-commuting operator letters with commuting scalar letters: {(scalars, word): int}."""

    def __init__(self, t=None):
        self.t = {k: v for k, v in (t or {}).items() if v}

    @staticmethod
    def op(letter):
        return NC({((), (letter,)): 1})

    @staticmethod
    def scalar(letter):
        return NC({((letter,), ()): 1})

    @staticmethod
    def const(c):
        return NC({((), ()): c})

    def __add__(a, b):
        t = dict(a.t)
        for k, v in b.t.items():
            t[k] = t.get(k, 0) + v
        return NC(t)

    def __neg__(a):
        return NC({k: -v for k, v in a.t.items()})

    def __sub__(a, b):
        return a + (-b)

    def __mul__(a, b):
        t = {}
        for (s1, w1), v1 in a.t.items():
            for (s2, w2), v2 in b.t.items():
                sign, sc = _norm_scalars(s1 + s2)
                k = (sc, w1 + w2)
                t[k] = t.get(k, 0) + sign * v1 * v2
        return NC(t)

    def inv_scalar(a):
        """1/a for a single scalar monomial with coefficient +-1 (e.g. i*k)."""
        if len(a.t) != 1:
            raise AnalysisError("homomorphism: reciprocal of a sum")
        ((s, w), v), = a.t.items()
        if w or v not in (1, -1):
            raise AnalysisError("homomorphism: reciprocal of a non-scalar term")
        sign, sc = _norm_scalars(tuple(x[:-2] if x.endswith("⁻¹") else x + "⁻¹" for x in s))
        return NC({(sc, ()): v * sign})

    def __eq__(a, b):
        return a.t == b.t

    def __repr__(a):
        return " + ".join("%s%s%s" % (v if v != 1 else "", "*".join(s) + ("*" if s and w else "") if s else "", ".".join(w)) for (s, w), v in sorted(a.t.items())) or "0"


class NCEval:
    """Evaluate a return expression into NC given leaf bindings.

    leaves: dict mapping a canonical leaf text (e.g. 'self._op1') to NC; calls `.m()` on a leaf for m in
    ``morphisms`` give the same leaf (the method is a homomorphic image); other calls are looked up in ``calls``."""

    def __init__(self, leaves, morphisms=(), calls=None, scalars=()):
        self.leaves, self.morphisms, self.calls, self.scalars = leaves, set(morphisms), calls or {}, set(scalars)

    def ev(self, n):
        txt = unparse(n)
        if txt in self.leaves:
            return self.leaves[txt]
        if txt in self.calls:
            return self.calls[txt]
        if isinstance(n, ast.Constant):
            if isinstance(n.value, complex) and n.value == 1j:
                return NC.scalar("i")
            if isinstance(n.value, (int,)) and not isinstance(n.value, bool):
                return NC.const(n.value)
            if isinstance(n.value, float) and n.value == int(n.value):
                return NC.const(int(n.value))
        if isinstance(n, ast.UnaryOp) and isinstance(n.op, ast.USub):
            return -self.ev(n.operand)
        if isinstance(n, ast.BinOp):
            if isinstance(n.op, ast.Add):
                return self.ev(n.left) + self.ev(n.right)
            if isinstance(n.op, ast.Sub):
                return self.ev(n.left) - self.ev(n.right)
            if isinstance(n.op, (ast.Mult, ast.MatMult)):
                return self.ev(n.left) * self.ev(n.right)
        if isinstance(n, ast.Call) and isinstance(n.func, ast.Attribute):
            if n.func.attr in self.morphisms and not n.keywords:
                base = self.ev(n.func.value)
                args = [self.ev(a) for a in n.args]
                r = base
                for a in args:
                    r = r * a
                return r
            if n.func.attr in ("dot",) and len(n.args) == 1:
                return self.ev(n.func.value) * self.ev(n.args[0])
            if n.func.attr == "astype" and len(n.args) == 1:
                return self.ev(n.func.value)
        if isinstance(n, ast.Call) and unparse(n.func).split(".")[-1] in ("real", "imag") and len(n.args) == 1:
            inner = unparse(n.args[0])
            key = "%s(%s)" % (unparse(n.func).split(".")[-1], inner)
            if key in self.leaves:
                return self.leaves[key]
        raise AnalysisError("homomorphism: expression outside the term subset: %s" % txt[:80])


# ------------------------------------------------------------------ guards


def compat_pairs(test):
    """Set of (lhs, rhs) canonical strings for every `A.is_compatible(B)` / `A == B` / `A != B` comparison in a test."""
    out = set()
    for n in ast.walk(test):
        if isinstance(n, ast.Call) and isinstance(n.func, ast.Attribute) and n.func.attr in ("is_compatible", "_is_compatible") and len(n.args) == 1:
            out.add(frozenset([unparse(n.func.value), unparse(n.args[0])]))
        if isinstance(n, ast.Compare) and len(n.ops) == 1 and isinstance(n.ops[0], (ast.Eq, ast.NotEq)):
            out.add(frozenset([unparse(n.left), unparse(n.comparators[0])]))
    return out


def guard_before(fn, sink_pred):
    """All `if <test>: raise` guards that lexically precede (and are not nested deeper than) the first sink statement."""
    guards = []
    for st in fn.body:
        if isinstance(st, ast.If) and any(isinstance(s, ast.Raise) for s in st.body):
            guards.append(st)
        if any(sink_pred(n) for n in ast.walk(st)) and not (isinstance(st, ast.If) and any(isinstance(s, ast.Raise) for s in st.body)):
            break
    return guards


# ------------------------------------------------------------------ definite assignment


BUILTINS = set(dir(builtins))


def _is_mode_test(t):
    """`x == "literal"` / `x.attr == "literal"` / `x in ("a", "b")` style dispatch on a mode string."""
    if isinstance(t, ast.Compare) and len(t.ops) == 1 and isinstance(t.ops[0], (ast.Eq, ast.In)):
        c = t.comparators[0]
        if isinstance(c, ast.Constant) and isinstance(c.value, str):
            return True
        if isinstance(c, (ast.Tuple, ast.List)) and all(isinstance(e, ast.Constant) and isinstance(e.value, str) for e in c.elts):
            return True
    return False


def maybe_unassigned(fn, module_names):
    """Names that are assigned on some but not all paths through an if/elif chain and read afterwards on a path
    where they may be unassigned.  Loops and try blocks are treated optimistically (their bodies are assumed to run)."""
    params = set(arg_names(fn)) | {a.arg for a in fn.args.kwonlyargs}
    if fn.args.vararg:
        params.add(fn.args.vararg.arg)
    if fn.args.kwarg:
        params.add(fn.args.kwarg.arg)
    reports = []

    def assigned_in(node):
        out = set()
        for n in ast.walk(node):
            if isinstance(n, ast.Name) and isinstance(n.ctx, ast.Store):
                out.add(n.id)
            elif isinstance(n, (ast.Import, ast.ImportFrom)):
                for a in n.names:
                    out.add((a.asname or a.name).split(".")[0])
            elif isinstance(n, (ast.FunctionDef, ast.ClassDef)) and n is not node:
                out.add(n.name)
        return out

    all_assigned = assigned_in(fn)

    def terminates(body):
        return bool(body) and isinstance(body[-1], (ast.Return, ast.Raise, ast.Continue, ast.Break))

    def uses(node):
        return [n for n in ast.walk(node) if isinstance(n, ast.Name) and isinstance(n.ctx, ast.Load)]

    def walk(body, defined):
        """Returns the set of names definitely defined after the body (None if the body always terminates)."""
        defined = set(defined)
        for st in body:
            if isinstance(st, ast.If):
                check_expr(st.test, defined)
                d1 = walk(st.body, defined)
                d2 = walk(st.orelse, defined) if st.orelse else set(defined)
                if d1 is None and d2 is None:
                    return None
                if d1 is not None and d2 is not None and not st.orelse and _is_mode_test(st.test):
                    # if/elif chain over string (or identifier) modes without else: the mode was validated earlier;
                    # treat the chain as exhaustive (reporting these would be the classic infeasible-path false alarm)
                    defined = d1 | d2
                    continue
                defined = d2 if d1 is None else (d1 if d2 is None else (d1 & d2))
                continue
            if isinstance(st, (ast.For, ast.While)):
                if isinstance(st, ast.For):
                    check_expr(st.iter, defined)
                    defined |= assigned_in(st.target)
                inner = walk(st.body, defined)
                defined |= assigned_in(st)  # optimistic
                continue
            if isinstance(st, ast.With):
                for item in st.items:
                    check_expr(item.context_expr, defined)
                    if item.optional_vars is not None:
                        defined |= assigned_in(item.optional_vars)
                d = walk(st.body, defined)
                if d is None:
                    return None
                defined = d
                continue
            if isinstance(st, ast.Try):
                defined |= assigned_in(st)  # optimistic
                continue
            if isinstance(st, (ast.FunctionDef, ast.ClassDef)):
                defined.add(st.name)
                continue
            if isinstance(st, (ast.Return, ast.Raise)):
                check_expr(st, defined)
                return None
            if isinstance(st, (ast.Assign, ast.AugAssign, ast.AnnAssign)):
                check_expr(st.value, defined) if getattr(st, "value", None) is not None else None
                if isinstance(st, ast.AugAssign):
                    check_expr(st.target, defined)
                defined |= assigned_in(st)
                continue
            check_expr(st, defined)
            defined |= assigned_in(st)
        return defined

    def check_expr(node, defined):
        if node is None:
            return
        # names bound by comprehensions / lambdas inside the expression
        local = set()
        for n in ast.walk(node):
            if isinstance(n, ast.comprehension):
                local |= {x.id for x in ast.walk(n.target) if isinstance(x, ast.Name)}
            if isinstance(n, ast.Lambda):
                local |= set(arg_names(n))
        for n in uses(node):
            if n.id in defined or n.id in local or n.id in params or n.id in BUILTINS or n.id in module_names:
                continue
            if n.id in all_assigned:
                reports.append((n.id, n.lineno))

    walk(fn.body, set())
    seen = set()
    out = []
    for name, line in reports:
        if name not in seen:
            seen.add(name)
            out.append((name, line))
    return out
