"""PAR: effect analysis of every ``prange`` loop in functions jitted with ``parallel=True``.

Semantics assumed (Numba documentation): iterations of a prange loop may run concurrently in any order; names
assigned in the loop body are private to the iteration; updates of array elements are *not* reductions.
A store to an array that exists before the loop is therefore safe iff no two iterations address the same slot.
"""

import ast

from . import assemblers as A
from . import kernels as K
from . import symex
from .alg import V
from .core import AnalysisError
from .src import arg_names, decorator_opts, unparse
from .symex import Arr, Interp, Opq, OpqArr, opaque_atom

NK = K.NK
FH = "bempp_cl/api/fmm/helpers.py"


def parallel_functions(ctx):
    """All (rel, qualified name, fn, [prange loops]) with a jit decorator having parallel=True."""
    out = []
    seq = []
    for rel in ctx.repo.py_files("bempp_cl"):
        m = ctx.repo.mod(rel)
        for name, fn in m.functions.items():
            if "<" in name:
                continue
            opts = decorator_opts(fn)
            loops = [n for n in ast.walk(fn) if isinstance(n, ast.For) and isinstance(n.iter, ast.Call) and unparse(n.iter.func).endswith("prange")]
            if not loops:
                continue
            if opts is not None and opts.get("parallel") is True:
                out.append((rel, name, fn, loops))
            else:
                seq.append((rel, name, fn, loops))
    return out, seq


class Store:
    def __init__(self, rel, fname, arr, pattern, cls, why, line, text):
        self.rel, self.fname, self.arr, self.pattern, self.cls, self.why, self.line, self.text = rel, fname, arr, pattern, cls, why, line, text


def _axis_injective(p, var):
    """Is the index polynomial p an injective function of loop variable var?  p = w*var + rest with rest in [0, w)."""
    poly = p.aspoly()
    if poly is None:
        return False
    if symex._single_atom_name(p) == var:
        return True
    from .alg import C, Poly

    wterm = None
    rest = {}
    for k, c in poly.t.items():
        d = dict(k)
        if var in d:
            if d[var] != 1 or wterm is not None:
                return False
            wterm = (tuple(sorted((a, e) for a, e in d.items() if a != var)), c)
        else:
            rest[k] = c
    if wterm is None:
        return False
    w = V.of_poly(Poly({wterm[0]: wterm[1]}))
    if symex._mono(w) is None:
        return False
    rp = Poly(rest)
    if var in symex._deep_atoms(V.of_poly(rp)):
        return False
    return symex._in_range(rp, w)


def classify_writes(rel, fname, it, par_ok_arrays=()):
    """Classify every store of a symex run that happens inside a parallel loop to an array created outside it."""
    out = []
    for arr, op, pattern, term, loops, node in it.writes:
        ppos = next((i for i, l in enumerate(loops) if l.parallel), None)
        if ppos is None:
            continue
        if arr.depth > ppos:
            continue  # allocated inside the iteration: private
        var = loops[ppos].var
        text = "%s[%s] %s" % (arr.desc, ", ".join(symex.idx_str(p) for p in pattern), op)
        line = getattr(node, "lineno", 0)
        # (A) owner-indexed
        if any(_axis_injective(p, var) for p in pattern):
            out.append(Store(rel, fname, arr.desc, pattern, "owner", "slot index is an injective function of the prange variable", line, text))
            continue
        # (B) scatter through a global-dof table indexed by the element list of the prange variable
        sc = _scatter(pattern, var)
        if sc is not None:
            out.append(Store(rel, fname, arr.desc, pattern, "scatter", sc, line, text))
            continue
        out.append(Store(rel, fname, arr.desc, pattern, "unsafe", "cannot prove that different iterations write different slots", line, text))
    return out


def _scatter(pattern, var):
    """pattern[k] == table⟨elements⟨var⟩, f⟩ : returns (table, element list) description."""
    for p in pattern:
        a = A._single_atom(p)
        if a is None or a not in symex.ATOMS:
            continue
        desc, idx = symex.ATOMS[a]
        if len(idx) == 2:
            e = A._single_atom(idx[0])
            if e is not None and e in symex.ATOMS:
                edesc, eidx = symex.ATOMS[e]
                if len(eidx) == 1 and A._single_atom(eidx[0]) == var:
                    return (desc, edesc)
    return None


def scalar_hazards(it):
    out = []
    for name, birth, loops, node in it.scalar_aug:
        ppos = next((i for i, l in enumerate(loops) if l.parallel), None)
        if ppos is not None and birth <= ppos:
            out.append((name, getattr(node, "lineno", 0)))
    return out


# ---------------------------------------------------------------- fmm helpers


def run_fmm_function(ctx, fname):
    m = ctx.repo.mod(FH)
    fn = m.fn(fname)
    params = arg_names(fn)
    symex.reset()
    hooks = A.Hooks(ctx, "fmm")
    hd = hooks.as_dict()
    N = lambda s: opaque_atom("#" + s)
    env = {}
    for p in params:
        if p == "grid_data":
            env[p] = A.Grid("grid_data")
        elif p in ("local_points",):
            env[p] = Arr(p, "input", ndim=2, shape=[2, N("pts")])
        elif p in ("coeffs", "charges"):
            env[p] = Arr(p, "input", ndim=1, shape=[N(p)])
        elif p in ("targets", "sources"):
            env[p] = Arr(p, "input", ndim=2, shape=[N(p), 3])
        elif p in ("kernel_function", "kernel"):
            env[p] = Opq(p, "fmmkernel")
        elif p == "kernel_parameters":
            env[p] = Arr(p, "input", ndim=1, shape=[N("kp")])
        elif p in ("dtype", "result_type", "kernel_type"):
            env[p] = Opq(p, "dtype")
        else:
            raise AnalysisError("%s: unknown parameter %s" % (fname, p))

    def method(it, recv, meth, args, node):
        r = hooks.method(it, recv, meth, args, node)
        if r is not None:
            return r
        return None

    def attr(it, base, at, node):
        r = hooks.attr(it, base, at, node)
        if r is not None:
            return r
        if at == "T" and isinstance(base, Arr) and base.ndim == 2:
            return Transposed(base)
        return None

    hd["attr"] = attr
    hd["counters"] = {"local_count"}
    hd["functions"] = {}
    it = Interp(m, fn, env, hd)
    symex._NP_FUNCS.setdefault("_np.sort", _np_sort)
    it.run()
    return it, fn


class Transposed(OpqArr):
    def __init__(self, ref):
        OpqArr.__init__(self, "T(%s)" % ref.desc, 2)
        self.ref = ref

    def sub(self, it, spec, node):
        if len(spec) == 2:
            return it.subscript(self.ref, [spec[1], spec[0]], node)
        full = list(spec) + [("all",)] * (2 - len(spec))
        return symex.View(self, full)


def _np_sort(it, args, kw, e):
    a = args[0]
    o = OpqArr("sort(%s)" % symex.describe(a), 1)
    return o
