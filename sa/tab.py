"""TAB: literal tables with their printed precision, exact arithmetic."""

import ast
from decimal import Decimal, getcontext

from .core import AnalysisError

getcontext().prec = 60
FLOOR = Decimal("1e-15")


class Lit:
    """A numeric literal: exact decimal value of the printed text and half a unit in its last printed digit."""

    __slots__ = ("v", "h", "line")

    def __init__(self, v, h, line):
        self.v, self.h, self.line = v, h, line


def _lit_from_text(text, line):
    t = text.strip().replace("_", "")
    neg = False
    while t and t[0] in "+-":
        if t[0] == "-":
            neg = not neg
        t = t[1:].strip()
    try:
        v = Decimal(t)
    except Exception:
        raise AnalysisError("table literal %r at line %s is not a decimal number" % (text, line))
    mant = t.lower().split("e")[0]
    exp = int(t.lower().split("e")[1]) if "e" in t.lower() else 0
    digits = len(mant.split(".")[1]) if "." in mant else 0
    h = Decimal(5) * Decimal(10) ** (exp - digits - 1)
    if "." not in mant and "e" not in t.lower():
        h = Decimal(0)  # integers are exact
    elif h < FLOOR:
        # the tables are double-precision numbers printed with (sometimes zero-padded) 15-16 digits:
        # no literal is taken to be more accurate than the resolution at which they were generated
        h = FLOOR
    return Lit(-v if neg else v, h, line)


def literal_array(module, name):
    """Flat list of Lit for ``name = _np.array([...])`` (or a plain list) at module level."""
    node = module.assigns.get(name)
    if node is None:
        raise AnalysisError("table %s vanished from %s" % (name, module.rel))
    if isinstance(node, ast.Call) and node.args:
        node = node.args[0]
    if not isinstance(node, (ast.List, ast.Tuple)):
        raise AnalysisError("table %s in %s is not a literal list" % (name, module.rel))
    lines = module.source.splitlines()
    out = []

    def rec(n):
        if isinstance(n, (ast.List, ast.Tuple)):
            for e in n.elts:
                rec(e)
            return
        if n.lineno != n.end_lineno:
            raise AnalysisError("multi-line literal in table %s" % name)
        text = lines[n.lineno - 1][n.col_offset : n.end_col_offset]
        out.append(_lit_from_text(text, n.lineno))

    rec(node)
    return out


def int_array(module, name):
    lits = literal_array(module, name)
    out = []
    for l in lits:
        if l.v != l.v.to_integral_value():
            raise AnalysisError("table %s contains a non-integer" % name)
        out.append(int(l.v))
    return out


def factorial(n):
    r = 1
    for i in range(2, n + 1):
        r *= i
    return r
