"""C09: which vertices of a continuous piecewise-linear space get a global dof (finite-domain abstract execution).

`_compute_p1_dof_map` decides per (support element, local vertex) from: does the vertex have a neighbouring element
outside the support, is it on the grid boundary, include_boundary_dofs, truncate_at_segment_edge.  Documented behaviour:

    include_boundary_dofs, or all neighbours in the support and not on the grid boundary
        -> the (element, local vertex) slot carries the vertex, the vertex is a dof
    some neighbour outside the support, include_boundary_dofs, not truncate_at_segment_edge
        -> every such neighbour joins the support and carries the vertex in the slot where it has that vertex
    otherwise nothing

Second pass: a slot that carries a vertex gets that vertex's dof number and multiplier 1 and puts its element in the
support; a slot that carries none is skipped, and afterwards (only such slots) aliased to a dof of the same element.
"""

import ast

from . import dispatch, roles
from .core import AnalysisError
from .rwgdofs import _flat, _sentinel
from .src import arg_names, unparse

SS = "bempp_cl/api/space/scalar_spaces.py"
FN = "_compute_p1_dof_map"


def _membership(body, already):
    """The statements with every `x in <list>` / `x not in <list>` test, where <list> is a list the code appends to,
    replaced by its value in the world where x is / is not a member yet (the effect analysis cannot decide such a test)."""
    import copy

    lists = {unparse(c.func.value) for st in body for c in ast.walk(st) if isinstance(c, ast.Call) and isinstance(c.func, ast.Attribute) and c.func.attr == "append"}

    class T(ast.NodeTransformer):
        def visit_Compare(self, node):
            if len(node.ops) == 1 and isinstance(node.ops[0], (ast.In, ast.NotIn)) and unparse(node.comparators[0]) in lists:
                return ast.copy_location(ast.Constant(already if isinstance(node.ops[0], ast.In) else not already), node)
            return node

    out = [T().visit(copy.deepcopy(st)) for st in body]
    for st in out:
        ast.fix_missing_locations(st)
    return out


def analyse(fn):
    p = arg_names(fn)
    if len(p) != 6:
        raise AnalysisError("%s: signature changed" % FN)
    gd, support, include, trunc, vn, ptr = p
    defs = roles.Defs(fn)
    out = []
    ret = [s for s in fn.body if isinstance(s, ast.Return)]
    if len(ret) != 1 or not isinstance(ret[0].value, ast.Tuple) or len(ret[0].value.elts) != 3 or not all(isinstance(e, ast.Name) for e in ret[0].value.elts):
        raise AnalysisError("%s: does not return (local2global, multipliers, support)" % FN)
    L2F, MULT, SUPF = (e.id for e in ret[0].value.elts)
    loops = [s for s in fn.body if isinstance(s, ast.For) and isinstance(s.target, ast.Name) and any(isinstance(x, ast.For) and unparse(x.iter).replace(" ", "") == "range(3)" for x in s.body)]
    if len(loops) != 2:
        raise AnalysisError("%s: expected two loops over support elements with an inner loop over the 3 local vertices, found %d" % (FN, len(loops)))
    first, second = loops
    # the element list of the first loop is exactly the support
    it = first.iter
    src_ok = False
    if isinstance(it, ast.Name):
        apps = [n for n in ast.walk(fn) if isinstance(n, ast.Call) and isinstance(n.func, ast.Attribute) and n.func.attr == "append" and unparse(n.func.value) == it.id and n.lineno < first.lineno]
        for a in apps:
            # for index, val in enumerate(support): if val: L.append(index)
            par = [l for l in ast.walk(fn) if isinstance(l, ast.For) and any(a is x for x in ast.walk(l))]
            for l in par:
                if unparse(l.iter).replace(" ", "") == "enumerate(%s)" % support and isinstance(l.target, ast.Tuple) and len(l.target.elts) == 2:
                    i, v = (x.id for x in l.target.elts)
                    if len(l.body) == 1 and isinstance(l.body[0], ast.If) and unparse(l.body[0].test) == v and unparse(a.args[0]) == i:
                        src_ok = True
    else:
        src_ok = roles.canon(it, defs).replace(" ", "") == "nz(%s)" % support
    out.append(("first pass runs over the support elements", src_ok, "the elements of the first pass `%s` are not exactly the indices with %s[index] true" % (unparse(it), support), first.lineno))
    el = first.target.id
    inner = [s for s in first.body if isinstance(s, ast.For) and unparse(s.iter).replace(" ", "") == "range(3)"][0]
    li = inner.target.id
    names = {}
    for st in ast.walk(inner):
        if isinstance(st, ast.Assign) and isinstance(st.targets[0], ast.Name):
            names.setdefault(st.targets[0].id, st)
    vx = [n for n, st in names.items() if roles.canon(st.value, roles._NoDefs()).replace(" ", "") == "%s.elements[(%s,%s)]" % (gd, li, el)]
    if len(vx) != 1:
        out.append(("vertex of (element, local index)", roles.found_or(False, names, "%s.elements[" % gd), "no local is defined as %s.elements[local_index, element] (found %s)" % (gd, {n: unparse(s.value)[:40] for n, s in names.items()}), inner.lineno))
        return out
    V = vx[0]
    out.append(("vertex of (element, local index)", True, "", inner.lineno))
    want = roles.canon(ast.parse("%s[%s[%s]:%s[%s+1]]" % (vn, ptr, V, ptr, V), mode="eval").body, roles._NoDefs()).replace(" ", "")
    nb = [n for n, st in names.items() if roles.canon(st.value, roles._NoDefs()).replace(" ", "") == want]
    out.append(("neighbours of the vertex", roles.found_or(len(nb) == 1, names, vn + "["), "no local holds the CSR row %s[%s[v] : %s[v + 1]] of the vertex" % (vn, ptr, ptr), inner.lineno))
    if len(nb) != 1:
        return out
    NB = nb[0]
    ns = []
    for n, st in names.items():
        v = st.value
        if isinstance(v, ast.ListComp) and len(v.generators) == 1 and isinstance(v.elt, ast.Name) and unparse(v.generators[0].target) == v.elt.id and unparse(v.generators[0].iter) == NB \
                and len(v.generators[0].ifs) == 1 and unparse(v.generators[0].ifs[0]).replace(" ", "") == "not%s[%s]" % (support, v.elt.id):
            ns.append(n)
    out.append(("neighbours outside the support", roles.found_or(len(ns) == 1, names, support + "[", "for"), "no local holds [n for n in <neighbours> if not %s[n]]" % support, inner.lineno))
    if len(ns) != 1:
        return out
    NS = ns[0]
    # slot table (vertex carried by (element, local index)) and its sentinel
    tables = {}
    for st in fn.body:
        if isinstance(st, ast.Assign) and isinstance(st.targets[0], ast.Name):
            s = _sentinel(st.value, fn)
            if s is not None:
                tables[st.targets[0].id] = (s, st.lineno)
    slot = [t for t in tables if any(isinstance(n, ast.Subscript) and isinstance(n.ctx, ast.Store) and unparse(n).replace(" ", "") == "%s[%s,%s]" % (t, el, li) for n in ast.walk(inner))]
    if len(slot) != 1:
        raise AnalysisError("%s: cannot identify the (element, local index) -> vertex table (candidates %s)" % (FN, slot))
    T = slot[0]
    sent = tables[T][0]
    out.append(("slot table sentinel", sent < 0, "the slot table `%s` is initialised with %s: vertex 0.. cannot be told from `no vertex`" % (T, sent), tables[T][1]))
    if sent >= 0:
        return out
    flags = [unparse(n.targets[0].value) for n in ast.walk(inner) if isinstance(n, ast.Assign) and isinstance(n.targets[0], ast.Subscript) and unparse(n.targets[0].slice) == V
             and isinstance(n.value, ast.Constant) and n.value.value is True]
    if len(set(flags)) != 1:
        raise AnalysisError("%s: cannot identify the vertex-is-dof flag array" % FN)
    FL = flags[0]
    for nout in (0, 2):
        for onb in (True, False):
            for inc in (True, False):
                for tr in (True, False):
                    env = {"len(%s)" % NS: nout, "%s.vertex_on_boundary[%s]" % (gd, V): onb, include: inc, trunc: tr}
                    top = dispatch.effects(_membership(inner.body, False), env, FN)
                    if nout > 0 and inc and not tr:
                        # the same neighbour may already have joined the extended support through ANOTHER vertex of the
                        # segment boundary (it shares an edge with the segment): the slot of THIS vertex is written all the same
                        again = [e for e in dispatch.effects(_membership(inner.body, True), env, FN) if e[0] == "loop"]
                        sts2 = [e for l in again for e in l[2] if e[0] == "store" and e[1].startswith(T + "[") and e[2] == V]
                        if len(again) == 1 and not sts2:
                            out.append(("first pass: an outside neighbour that already joined the extended support through another vertex", False,
                                        "when the neighbour is already in the extended support the loop body does not store the vertex at the neighbour's slot: an element outside the segment that shares an EDGE with it gets only the first of its two boundary vertices", inner.lineno))
                    effs = list(_flat(top))
                    own = [e for e in effs if e[0] == "store" and e[1].replace(" ", "") == "%s[%s,%s]" % (T, el, li)]
                    flag = [e for e in effs if e[0] == "store" and e[1].replace(" ", "") == "%s[%s]" % (FL, V)]
                    ext = [e for e in top if e[0] == "loop"]
                    want_dof = inc or (nout == 0 and not onb)
                    want_ext = nout > 0 and inc and not tr
                    okd = (len(own) == 1 and own[0][2] == V and len(flag) == 1 and flag[0][2] == "True") if want_dof else (not own and not flag)
                    oke = not ext
                    emsg = "support extended (%s)" % [e[1] for e in ext]
                    if want_ext:
                        oke = len(ext) == 1 and ext[0][1] == NS
                        if oke:
                            body = ext[0][2]
                            lv = [l for l in ast.walk(inner) if isinstance(l, ast.For) and unparse(l.iter) == NS][0].target.id
                            apps = [e for e in body if e[0] == "call" and e[1].endswith(".append(%s)" % lv)]
                            sts = [e for e in body if e[0] == "store" and e[1].startswith(T + "[") and e[2] == V]
                            idx_ok = False
                            for e in sts:
                                tgt = ast.parse(e[1], mode="eval").body
                                if isinstance(tgt.slice, ast.Tuple) and len(tgt.slice.elts) == 2 and unparse(tgt.slice.elts[0]) == lv:
                                    pos = roles.canon(tgt.slice.elts[1], roles.Defs(fn), keep=(lv, V, el, li)).replace(" ", "")
                                    idx_ok = pos == "find_index(%s.elements[(:,%s)],%s)" % (gd, lv, V)
                            oke = len(apps) == 1 and len(sts) == 1 and idx_ok
                            emsg = "each outside neighbour must join the extended support and carry the vertex at its own local index of that vertex (appends %s, stores %s)" % ([a[1] for a in apps], [s[1:] for s in sts])
                        else:
                            emsg = "no loop over the neighbours outside the support extends it"
                    inst = "first pass: %d neighbour(s) outside the support, vertex %son the grid boundary, include_boundary_dofs=%s, truncate_at_segment_edge=%s" % (nout, "" if onb else "not ", inc, tr)
                    msg = "; ".join(m for m, o in (("the slot %s carry the vertex and mark it as a dof (slot stores %s, flag stores %s)" % ("must" if want_dof else "must not", [x[1:] for x in own], [x[1:] for x in flag]), okd),
                                                    (emsg if want_ext else "the support must not be extended here, but it is (%s)" % [e[1] for e in ext], oke)) if not o)
                    out.append((inst, okd and oke, msg, inner.lineno))
    # find_index helper: first position of value
    helpers = [s for s in fn.body if isinstance(s, ast.FunctionDef) and s.name == "find_index"]
    if helpers:
        h = helpers[0]
        a, v = arg_names(h)
        got = unparse(ast.Module(body=[s for s in h.body if not (isinstance(s, ast.Expr) and isinstance(s.value, ast.Constant))], type_ignores=[])).replace(" ", "")
        loopok = False
        for l in h.body:
            if isinstance(l, ast.For) and unparse(l.iter).replace(" ", "") == "enumerate(%s)" % a and isinstance(l.target, ast.Tuple):
                i, x = (t.id for t in l.target.elts)
                if len(l.body) == 1 and isinstance(l.body[0], ast.If) and unparse(l.body[0].test).replace(" ", "") in ("%s==%s" % (x, v), "%s==%s" % (v, x)) \
                        and len(l.body[0].body) == 1 and isinstance(l.body[0].body[0], ast.Return) and unparse(l.body[0].body[0].value) == i and not l.body[0].orelse:
                    loopok = True
        out.append(("find_index returns the position of the value", loopok, "find_index is not `for i, x in enumerate(array): if x == value: return i` (found %s)" % got[:120], h.lineno))
    # dof numbers of the flagged vertices: dofs[flatnonzero(flag)] = arange(count)
    S = roles.stores(fn.body, defs)
    num = [s for s in S if s.op == "=" and isinstance(s.tnode, ast.Subscript) and not s.loops and not s.guards
           and roles.canon(s.tnode.slice, defs).replace(" ", "") == "nz(%s)" % FL and roles.canon(s.vnode, defs).replace(" ", "") in ("_np.arange(len(nz(%s)))" % FL, "_np.arange(nz(%s).shape[0])" % FL)]
    out.append(("dof numbers of the flagged vertices", len(num) == 1, "no table receives arange(number of flagged vertices) at the flagged vertices (dofs[flatnonzero(%s)] = arange(count))" % FL, second.lineno))
    if len(num) != 1:
        return out
    DOFS = unparse(num[0].tnode.value)
    # second pass
    el2 = second.target.id
    i2 = [s for s in second.body if isinstance(s, ast.For) and unparse(s.iter).replace(" ", "") == "range(3)"][0]
    li2 = i2.target.id
    carried = "%s[%s, %s]" % (T, el2, li2)
    cn = [st.targets[0].id for st in i2.body if isinstance(st, ast.Assign) and isinstance(st.targets[0], ast.Name) and unparse(st.value).replace(" ", "") == carried.replace(" ", "")]
    if len(cn) != 1:
        out.append(("second pass reads the slot", False, "the second pass does not read %s into a local first" % carried, i2.lineno))
        return out
    C = cn[0]
    for val in (sent, 0, 7):
        effs = list(_flat(dispatch.effects(i2.body[1:], {C: val}, FN)))
        l2 = [e for e in effs if e[0] == "store" and e[1].replace(" ", "") == "%s[%s,%s]" % (L2F, el2, li2)]
        mu = [e for e in effs if e[0] == "store" and e[1].replace(" ", "") == "%s[%s,%s]" % (MULT, el2, li2)]
        sp = [e for e in effs if e[0] == "store" and e[1].replace(" ", "") == "%s[%s]" % (SUPF, el2)]
        has = val != sent
        if has:
            # value stored must be the dof number of the carried vertex
            sets = {e[1]: e[2] for e in effs if e[0] == "set"}
            v = l2[0][2] if len(l2) == 1 else None
            v = sets.get(v, v)
            ok = len(l2) == 1 and isinstance(v, str) and v.replace(" ", "") == "%s[%s]" % (DOFS, C) and len(mu) == 1 and mu[0][2] == "1" and len(sp) == 1 and sp[0][2] == "True"
        else:
            ok = not l2 and not mu and not sp
        out.append(("second pass: slot %s" % ("carries vertex %d" % val if has else "carries no vertex"), ok,
                    "a slot that carries %s: local2global stores %s, multiplier stores %s, support stores %s" % ("a vertex must get its dof number, multiplier 1 and put the element in the support" if has else "no vertex must be skipped", [x[1:] for x in l2], [x[1:] for x in mu], [x[1:] for x in sp]), i2.lineno))
    # aliasing of the empty slots: only under `slot carries no vertex`, from the same row
    S2 = roles.stores(second.body, defs)
    al = [s for s in S2 if isinstance(s.tnode, ast.Subscript) and unparse(s.tnode.value) == L2F and s.loops and s.loops[-1] is not i2]
    for s in al:
        sl = s.tnode.slice
        L = sl.elts[1].id if isinstance(sl, ast.Tuple) and len(sl.elts) == 2 and isinstance(sl.elts[1], ast.Name) else None
        empty = roles.expect("T[E, L] == S", defs, s.node.lineno, T=T, E=el2, L=L or "x", S=str(sent))
        filled = roles.expect("T[E, L] != S", defs, s.node.lineno, T=T, E=el2, L=L or "x", S=str(sent))
        ok = L is not None and bool(s.guards) and s.guards[-1] in ((empty, True), (filled, False))
        # every element that received a dof in this pass (the returned support, extension elements included) must be
        # treated: an enclosing test may only be that flag, never the support that was passed in
        flag = roles.expect("F[E]", defs, s.node.lineno, F=SUPF, E=el2)
        outer = [g for g in s.guards[:-1]]
        ok_outer = all(g == (flag, True) for g in outer)
        if True:
            out.append(("second pass: aliasing covers every element of the returned support", ok_outer,
                        "the aliasing of empty slots is skipped unless `%s`: elements added to the support in the first pass keep local2global entries that point at dof 0 of other elements (rows written concurrently, zero multiplier)" % " and ".join(g[0][:50] for g in outer if g != (flag, True)), s.node.lineno))
        out.append(("second pass: aliasing store `%s`" % unparse(s.node)[:50], ok,
                    "`%s` overwrites a slot of the element's dof map without testing that the slot carries no vertex (innermost guard %s)" % (unparse(s.node)[:60], s.guards[-1] if s.guards else None), s.node.lineno))
    out.append(("second pass: empty slots are aliased", len(al) >= 1, "no store aliases the empty slots of an element to one of its dofs", second.lineno))
    return out


def p1_dof_decisions(ctx):
    r = ctx.rule("P1-DOF-DECISIONS", "P1 numbering: per (neighbours outside the support, on grid boundary, include_boundary_dofs, truncate_at_segment_edge) exactly the documented slots carry their vertex, flag it and extend the support; numbered slots get the vertex's dof and multiplier 1, empty slots only are aliased", 25)
    fn = ctx.repo.mod(SS).fn(FN)
    res = analyse(fn)
    for inst, ok, msg, line in res:
        r.check(ok, inst, SS, FN, line, inst, msg)
    bad = ast.parse(_POSITIVE).body[0]
    good = ast.parse(_POSITIVE.replace("if inc or len(ns) == 0:  # defect", "if inc or (len(ns) == 0 and not gd.vertex_on_boundary[v]):")).body[0]
    r.must_fire(any(not ok for _, ok, _, _ in analyse(bad)) and all(ok for _, ok, _, _ in analyse(good)), "grid-boundary vertices numbered although include_boundary_dofs is False")


# the checker's own miniature of the numbering routine (not repository code): the marked line forgets the grid boundary
_POSITIVE = '''
def f(gd, support, inc, trunc, vn, ptr):
    def find_index(array, value):
        for index, val in enumerate(array):
            if val == value:
                return index
        return -1
    els = []
    for index, val in enumerate(support):
        if val:
            els.append(index)
    l2g = -_np.ones((gd.elements.shape[1], 3))
    isdof = _np.zeros(gd.vertices.shape[1])
    extra = []
    for e in els:
        for li in range(3):
            v = gd.elements[li, e]
            nb = vn[ptr[v] : ptr[v + 1]]
            ns = [n for n in nb if not support[n]]
            if inc or len(ns) == 0:  # defect
                l2g[e, li] = v
                isdof[v] = True
            if len(ns) > 0 and not trunc and inc:
                for en in ns:
                    extra.append(en)
                    l2g[en, find_index(gd.elements[:, en], v)] = v
    supf = _np.zeros(3)
    l2f = _np.zeros((3, 3))
    mult = _np.zeros((3, 3))
    dofs = -_np.ones(3)
    used = _np.flatnonzero(isdof)
    dofs[used] = _np.arange(len(used))
    els.extend(set(extra))
    for e in els:
        for li in range(3):
            vi = l2g[e, li]
            if vi == -1:
                continue
            supf[e] = True
            l2f[e, li] = dofs[vi]
            mult[e, li] = 1
        if supf[e]:
            m = _np.max(l2f[e])
            for li in range(3):
                if l2g[e, li] == -1:
                    l2f[e, li] = m
    return l2f, mult, supf
'''
