"""Duffy / Sauter-Schwab rules (duffy_galerkin.rule): symbolic extraction and change-of-variables proof."""

import ast
from fractions import Fraction as F
from itertools import product

from . import symex, tab
from .alg import Poly, V
from .core import AnalysisError
from .src import arg_names
from .symex import Arr, Interp, Opq, opaque_atom

DG = "bempp_cl/api/integration/duffy_galerkin.py"
ADJ = ("coincident", "edge_adjacent", "vertex_adjacent")
VARS = ("ξ", "η1", "η2", "η3")


# ---- small dense polynomial arithmetic in 4 variables (tuples of exponents -> Fraction)


def p_from_V(v, names=VARS):
    p = v.aspoly()
    if p is None:
        raise AnalysisError("Duffy map is not polynomial: %r" % (v,))
    out = {}
    for k, c in p.t.items():
        if c.im:
            raise AnalysisError("complex coefficient in Duffy map")
        e = [0, 0, 0, 0]
        for a, n in k:
            if a not in names:
                raise AnalysisError("Duffy map depends on %s" % a)
            e[names.index(a)] = n
        out[tuple(e)] = out.get(tuple(e), 0) + c.re
    return {k: c for k, c in out.items() if c}


def p_mul(a, b):
    out = {}
    for ka, ca in a.items():
        for kb, cb in b.items():
            k = (ka[0] + kb[0], ka[1] + kb[1], ka[2] + kb[2], ka[3] + kb[3])
            out[k] = out.get(k, 0) + ca * cb
    return {k: c for k, c in out.items() if c}


def p_add(a, b, s=1):
    out = dict(a)
    for k, c in b.items():
        out[k] = out.get(k, 0) + s * c
    return {k: c for k, c in out.items() if c}


def p_diff(a, i):
    out = {}
    for k, c in a.items():
        if k[i]:
            kk = list(k)
            kk[i] -= 1
            out[tuple(kk)] = out.get(tuple(kk), 0) + c * k[i]
    return out


def p_pow(a, n):
    r = {(0, 0, 0, 0): F(1)}
    for _ in range(n):
        r = p_mul(r, a)
    return r


def p_int(a):
    """Integral over [0,1]^4."""
    s = F(0)
    for k, c in a.items():
        d = 1
        for e in k:
            d *= e + 1
        s += c / d
    return s


def det4(m):
    def det(mat):
        n = len(mat)
        if n == 1:
            return mat[0][0]
        tot = {}
        for j in range(n):
            if not mat[0][j]:
                continue
            minor = [row[:j] + row[j + 1 :] for row in mat[1:]]
            term = p_mul(mat[0][j], det(minor))
            tot = p_add(tot, term, 1 if j % 2 == 0 else -1)
        return tot

    return det(m)


# ---- extraction


def _concrete(e, env, module, fn, depth=0):
    """Value of an integer expression of the code under analysis for concrete inputs (Python semantics of //, %, /, int,
    round - ties to even -, max, min, abs; calls of simple functions of the same module are executed)."""
    import operator

    if depth > 4:
        raise AnalysisError("duffy rule: Gauss order expression nests too deep")
    if isinstance(e, ast.Constant) and isinstance(e.value, (int, float)):
        return e.value
    if isinstance(e, ast.Name):
        if e.id in env:
            return env[e.id]
        raise AnalysisError("duffy rule: Gauss order depends on `%s`" % e.id)
    if isinstance(e, ast.UnaryOp) and isinstance(e.op, ast.USub):
        return -_concrete(e.operand, env, module, fn, depth)
    ops = {ast.Add: operator.add, ast.Sub: operator.sub, ast.Mult: operator.mul, ast.Div: operator.truediv, ast.FloorDiv: operator.floordiv, ast.Mod: operator.mod, ast.Pow: operator.pow}
    if isinstance(e, ast.BinOp) and type(e.op) in ops:
        return ops[type(e.op)](_concrete(e.left, env, module, fn, depth), _concrete(e.right, env, module, fn, depth))
    if isinstance(e, ast.Call) and isinstance(e.func, ast.Name) and not e.keywords:
        args = [_concrete(a, env, module, fn, depth) for a in e.args]
        if e.func.id in ("int", "round", "max", "min", "abs", "float"):
            return {"int": int, "round": round, "max": max, "min": min, "abs": abs, "float": float}[e.func.id](*args)
        if e.func.id in module.functions:
            g = module.functions[e.func.id]
            loc = dict(zip([a.arg for a in g.args.args], args))
            for st in g.body:
                if isinstance(st, ast.Expr) and isinstance(st.value, ast.Constant):
                    continue
                if isinstance(st, ast.Assign) and len(st.targets) == 1 and isinstance(st.targets[0], ast.Name):
                    loc[st.targets[0].id] = _concrete(st.value, loc, module, g, depth + 1)
                elif isinstance(st, ast.Return) and st.value is not None:
                    return _concrete(st.value, loc, module, g, depth + 1)
                else:
                    raise AnalysisError("duffy rule: helper %s is not straight-line" % g.name)
    if isinstance(e, ast.Call) and isinstance(e.func, ast.Attribute) and ast.unparse(e.func) in ("math.ceil", "math.floor", "_np.ceil", "_np.floor", "np.ceil", "np.floor") and len(e.args) == 1:
        import math

        return (math.ceil if e.func.attr == "ceil" else math.floor)(_concrete(e.args[0], env, module, fn, depth))
    raise AnalysisError("duffy rule: Gauss order expression `%s` is not evaluated" % ast.unparse(e)[:60])


class Wrong(AnalysisError):
    """The rule was read completely and is not a Duffy-type tensor-Gauss rule for a reason the text states (the same
    array returned for both point sets, no points built for an adjacency, both points taken from one tensor index, a
    weight that is not the product of the two tensor weights times a polynomial): DUFFY-STRUCT reports it."""


def slot_counters(fn):
    """Names advanced by `+= 1` inside a loop of fn."""
    return {n.target.id for lp in ast.walk(fn) if isinstance(lp, ast.For) for n in ast.walk(lp)
            if isinstance(n, ast.AugAssign) and isinstance(n.target, ast.Name) and isinstance(n.op, ast.Add) and isinstance(n.value, ast.Constant) and n.value.value == 1}


def extract(ctx, adjacency):
    """Return dict: regions = [(xt0, xt1, xr0, xr1, weight/omega) as 4-var polys], counts, tensor checks."""
    m = ctx.repo.mod(DG)
    fn = m.fn("rule")
    params = arg_names(fn)
    if len(params) != 2:
        raise AnalysisError("duffy_galerkin.rule signature changed")
    body = fn.body
    # split: everything before the first top-level AugAssign / Return is evaluated, the tail is checked structurally
    cut = next((i for i, st in enumerate(body) if isinstance(st, (ast.AugAssign, ast.Return))), None)
    if cut is None:
        raise AnalysisError("duffy_galerkin.rule: no post-processing tail found")
    head, tail = body[:cut], body[cut:]
    # drop the initial adjacency guard (checked separately)
    head2 = []
    guard_ok = False
    for st in head:
        if isinstance(st, ast.If) and any(isinstance(s, ast.Raise) for s in st.body):
            t = st.test
            if (isinstance(t, ast.Compare) and isinstance(t.ops[0], ast.NotIn) and isinstance(t.comparators[0], (ast.List, ast.Tuple))
                    and isinstance(t.left, ast.Name) and t.left.id == params[1]):
                vals = {e.value for e in t.comparators[0].elts if isinstance(e, ast.Constant)}
                guard_ok = vals == set(ADJ)
            continue
        head2.append(st)
    symex.reset()
    n1 = opaque_atom("#gauss")
    xreg = Arr("xreg", "input", ndim=1, shape=[n1])
    wreg = Arr("wreg", "input", ndim=1, shape=[n1])
    order_atom = opaque_atom("order")

    def gauss_rule(it, args, node):
        if len(args) != 1 or not (isinstance(args[0], V) and args[0].eq(order_atom)):
            raise AnalysisError("duffy rule does not request the Gauss rule of its own order")
        return (xreg, wreg)

    gname = None
    for st in ast.walk(fn):
        if isinstance(st, ast.ImportFrom):
            for a in st.names:
                if a.name == "rule":
                    gname = a.asname or a.name
    if gname is None:
        raise AnalysisError("duffy_galerkin.rule no longer imports the Gauss rule")
    # which 1-D Gauss rule is requested: when the argument is not the order itself (a conversion helper, arithmetic on
    # the order), it is evaluated by the checker for every order 2..30 with Python's integer / rounding semantics; the
    # Duffy rule of order n is built on the n-point Gauss rule (that is what gives 6/5/2 * n^4 points and exactness up
    # to degree 2n-4)
    for c in ast.walk(fn):
        if isinstance(c, ast.Call) and isinstance(c.func, ast.Name) and c.func.id == gname and len(c.args) == 1 and not (isinstance(c.args[0], ast.Name) and c.args[0].id == params[0]):
            bad = []
            for n in range(2, 31):
                got = _concrete(c.args[0], {params[0]: n}, m, fn)
                if got != n:
                    bad.append((n, got))
            if bad:
                raise Wrong("the 1-D Gauss rule requested for order n is `%s` = %s for n = %s: the rule of order n must be built on the n-point Gauss rule (its advertised point count and its exactness degree 2n-4 depend on it)" % (
                    ast.unparse(c.args[0])[:60], ", ".join(str(g) for _, g in bad[:6]), ", ".join(str(n_) for n_, _ in bad[:6])))
            c.args[0] = ast.copy_location(ast.Name(id=params[0], ctx=ast.Load()), c.args[0])
    env = {params[0]: order_atom, params[1]: adjacency, gname: gauss_rule}
    # the locals by role: the returned triple is (test points, trial points, weights) by position - that is what callers
    # unpack; the slot counter is the name advanced by one inside the point loops
    rets = [st for st in tail if isinstance(st, ast.Return)]
    if len(rets) != 1 or not (isinstance(rets[0].value, ast.Tuple) and len(rets[0].value.elts) == 3 and all(isinstance(x, ast.Name) for x in rets[0].value.elts)):
        raise AnalysisError("duffy_galerkin.rule: the rule does not end in `return <test points>, <trial points>, <weights>` of three locals")
    if len({x.id for x in rets[0].value.elts}) != 3:
        raise Wrong("the rule returns `%s`: the same array serves as two of (test points, trial points, weights)" % ast.unparse(rets[0].value))
    PT, PR, W = (x.id for x in rets[0].value.elts)
    ctrs = sorted(slot_counters(fn))
    if len(ctrs) != 1:
        raise AnalysisError("duffy_galerkin.rule: no single slot counter advanced by one in the point loops (%s)" % ctrs)
    CTR = ctrs[0]
    it = Interp(m, fn, env, {"globals": {"_np": Opq("_np", "module")}, "counters": {CTR}})
    it.block(head2)
    e = it.env
    for need in (PT, PR, W, CTR):
        if need not in e:
            # the whole head was executed for this adjacency with every test decided: the branch that builds the rule was not taken
            raise Wrong("for adjacency %r the returned array `%s` is never built (no branch of the rule is taken for it)" % (adjacency, need))
    aux = [v for k, v in e.items() if isinstance(v, Arr) and v.kind != "input" and k not in (PT, PR, W)]
    aux2, aux1 = [a for a in aux if a.ndim == 2], [a for a in aux if a.ndim == 1]
    if len(aux2) != 1 or len(aux1) != 1:
        raise AnalysisError("duffy_galerkin.rule: tensor Gauss point / weight arrays not identified (2-d: %d, 1-d: %d)" % (len(aux2), len(aux1)))
    R = symex._try_int(e[CTR])
    if R is None:
        raise AnalysisError("duffy rule: region counter is not literal per iteration")
    # identify the two loop variables from the tensor point reads
    regions = []
    pt, pr, w = e[PT], e[PR], e[W]
    if not (isinstance(pt, Arr) and isinstance(pr, Arr) and isinstance(w, Arr) and pt.ndim == 2 and pr.ndim == 2 and w.ndim == 1):
        raise AnalysisError("duffy_galerkin.rule: returned values are not (2-d points, 2-d points, 1-d weights)")
    loopvars = sorted({a for st in pt.stores for a in symex._deep_atoms(st[2]) if a.startswith("‹ι")})
    allvars = sorted({a for arr in (pt, pr) for st in arr.stores for a in symex._deep_atoms(st[2]) if a.startswith("‹ι")})
    if len(allvars) == 1:
        raise Wrong("test and trial points of %r are built from %d tensor Gauss index(es) %s instead of one each: the rule is not a tensor rule in four variables" % (adjacency, len(allvars), allvars))
    if len(loopvars) != 2:
        raise AnalysisError("duffy rule: expected two tensor-point loop variables, found %s" % loopvars)
    # which is test / trial: xsi = tensor_points[0, test] is the first coordinate of the first region's test point in
    # every rule; decide by range order of creation instead: the outer loop variable has the smaller counter
    tvar, rvar = loopvars  # names are ‹ιname<k>›; sorted puts test_ind before trial_ind only by name; verify by nesting
    t, r = V.atom(tvar), V.atom(rvar)
    tp, tw = aux2[0], aux1[0]
    # tensor construction: tensor_points[0, i*n+j] = xreg[j], [1, ...] = xreg[i], weights = wreg[i]*wreg[j]
    i_, j_ = symex.fresh("i"), symex.fresh("j")
    symex.RANGES[i_], symex.RANGES[j_] = n1, n1
    I_, J_ = V.atom(i_), V.atom(j_)
    tens_ok = (
        it.read(tp, [V.const(0), I_ * n1 + J_], fn).eq(opaque_atom("xreg", [J_]))
        and it.read(tp, [V.const(1), I_ * n1 + J_], fn).eq(opaque_atom("xreg", [I_]))
        and it.read(tw, [I_ * n1 + J_], fn).eq(opaque_atom("wreg", [I_]) * opaque_atom("wreg", [J_]))
    )
    nreg_ok = all(a.shape is not None and symex.tov(a.shape[-1]).eq(n1 * n1) for a in (tp, tw))
    want_n = V.const(R) * n1 * n1 * n1 * n1
    npts_ok = all(a.shape is not None and symex.tov(a.shape[-1]).eq(want_n) for a in (pt, pr, w)) and all(symex.tov(a.shape[0]).eq(V.const(2)) for a in (pt, pr, tp))
    lv_ok = all(symex.RANGES.get(v) is not None and symex.RANGES[v].eq(n1 * n1) for v in (tvar, rvar))

    def atom_name(v):
        return next(iter(v.atoms()))

    def canon(v):
        """Name the four integration variables: the tensor point of loop variable 1 is (ξ, η1), of variable 2 (η2, η3).
        (tensor_points[0, s] = xreg[s mod n], tensor_points[1, s] = xreg[s div n] through the construction stores.)"""
        envs = {}
        for var, (p0, p1, om) in ((tvar, ("ξ", "η1", "ω1")), (rvar, ("η2", "η3", "ω2"))):
            dv = opaque_atom("DIV", [V.atom(var), n1])
            mo = opaque_atom("MOD", [V.atom(var), n1])
            envs[atom_name(opaque_atom("xreg", [mo]))] = V.atom(p0)
            envs[atom_name(opaque_atom("xreg", [dv]))] = V.atom(p1)
            envs[atom_name(opaque_atom("wreg", [dv]))] = V.atom(om + "a")
            envs[atom_name(opaque_atom("wreg", [mo]))] = V.atom(om + "b")
        return v.subs(envs)

    for k in range(R):
        kk = V.const(k)
        xt = [canon(it.read(pt, [V.const(c), kk], fn)) for c in range(2)]
        xr = [canon(it.read(pr, [V.const(c), kk], fn)) for c in range(2)]
        wk = canon(it.read(w, [kk], fn))
        omega = V.atom("ω1a") * V.atom("ω1b") * V.atom("ω2a") * V.atom("ω2b")
        jk = wk.subs({a: V.const(1) for a in ("ω1a", "ω1b", "ω2a", "ω2b")})
        if not wk.eq(omega * jk):
            raise Wrong("%s region %d: the weight `%r` is not (weight of the test tensor point) x (weight of the trial tensor point) x a polynomial in the four variables" % (adjacency, k + 1, wk))
        regions.append(([xt[0] - xt[1], xt[1]], [xr[0] - xr[1], xr[1]], jk))
    # tail: the shear p0 -= p1 for both point sets and the return tuple
    shear = set()
    tail_wrong = []
    ret_ok = False
    for st in tail:
        tgt = st.target if isinstance(st, ast.AugAssign) else (st.targets[0] if isinstance(st, ast.Assign) and len(st.targets) == 1 else None)
        base = tgt.value.id if isinstance(tgt, ast.Subscript) and isinstance(tgt.value, ast.Name) else None
        if base in (PT, PR):
            # a transformation of a returned point array after the regions are filled: it must be the shear p0 -= p1
            tg, vl = ast.unparse(tgt), ast.unparse(st.value)
            if isinstance(st, ast.AugAssign) and isinstance(st.op, ast.Sub) and tg == "%s[0, :]" % base and vl == "%s[1, :]" % base and base not in shear:
                shear.add(base)
            else:
                tail_wrong.append(ast.unparse(st)[:60])
        elif isinstance(st, ast.Return) and isinstance(st.value, ast.Tuple):
            ret_ok = True  # (shape of the return statement established above; which array is which is decided by position)
        else:
            raise AnalysisError("duffy_galerkin.rule: unexpected statement in the post-processing tail: %s" % ast.unparse(st)[:60])
    return {
        "regions": regions, "R": R, "guard_ok": guard_ok, "tensor_ok": tens_ok and nreg_ok and lv_ok, "npts_ok": npts_ok,
        "shear_ok": shear == {PT, PR} and not tail_wrong, "tail_wrong": tail_wrong, "ret_ok": ret_ok, "line": fn.lineno, "counter": CTR,
    }


def npoints_function(ctx):
    """number_of_quadrature_points(order, adjacency) as polynomial in `order` for each adjacency."""
    m = ctx.repo.mod(DG)
    fn = m.fn("number_of_quadrature_points")
    params = arg_names(fn)
    out = {}
    for adj in ADJ:
        symex.reset()
        it = Interp(m, fn, {params[0]: opaque_atom("order"), params[1]: adj}, {})
        try:
            out[adj] = symex.tov(it.run())
        except AnalysisError as e:
            if "reached a raise statement" not in str(e):
                raise
            out[adj] = None  # the function raises for this (valid) adjacency: reported by DUFFY-STRUCT
    return out


def mono_exact(a, b):
    return F(tab.factorial(a) * tab.factorial(b), tab.factorial(a + b + 2))


def check(ctx, max_degree=3):
    r_struct = ctx.rule("DUFFY-STRUCT", "tensor Gauss construction, adjacency guard, point-count formulas, final shear and return order", 3)
    r_jac = ctx.rule("DUFFY-JAC", "each region's weight polynomial == |det d(x_test, x_trial)/d(xi, eta1, eta2, eta3)| of its point map", 13)
    r_int = ctx.rule("DUFFY-EXACT", "sum over regions of the exact integral of (monomial o map) * weight over [0,1]^4 == exact integral over T x T", 3)
    r_mir = ctx.rule("DUFFY-MIRROR", "regions come in test<->trial mirrored pairs (coincident, vertex-adjacent rules)", 2)
    npf = npoints_function(ctx)
    order = opaque_atom("order")
    evals = 0
    for adj in ADJ:
        try:
            d = extract(ctx, adj)
        except Wrong as e:
            r_struct.fail(adj, DG, "rule", ctx.repo.mod(DG).fn("rule").lineno, "duffy %s structure: %s" % (adj, str(e)[:120]), str(e))
            continue
        want_n = V.const(d["R"]) * order * order * order * order
        probs = []
        if npf[adj] is None:
            probs.append("number_of_quadrature_points raises for the valid adjacency %r" % adj)
        if d["R"] < 1:
            probs.append("the slot counter does not advance over one pair of tensor points (net step %d): every pair overwrites the same slots" % d["R"])
        if not d["guard_ok"]:
            probs.append("unknown adjacency is not rejected before building anything")
        # the slot counter runs through all points: set to 0 outside the point loops, only ever advanced by one inside
        fnr = ctx.repo.mod(DG).fn("rule")
        resets = []
        for lp in [n for n in ast.walk(fnr) if isinstance(n, ast.For)]:
            for n in ast.walk(lp):
                if isinstance(n, ast.Assign) and any(isinstance(t, ast.Name) and t.id == d["counter"] for t in n.targets):
                    resets.append(n.lineno)
                elif isinstance(n, ast.AugAssign) and isinstance(n.target, ast.Name) and n.target.id == d["counter"] and not (isinstance(n.op, ast.Add) and isinstance(n.value, ast.Constant) and n.value.value == 1):
                    resets.append(n.lineno)
        if resets:
            probs.append("the slot counter is reassigned (not advanced by one) inside the point loops at line(s) %s: later iterations overwrite earlier points" % sorted(set(resets)))
        if not d["tensor_ok"]:
            probs.append("tensor Gauss points/weights are not (x_j, x_i), w_i*w_j at slot i*n+j")
        if not d["npts_ok"]:
            probs.append("allocated number_of_points differs from regions * n^4")
        if npf[adj] is not None and not npf[adj].eq(want_n):
            probs.append("number_of_quadrature_points(order, %r) = %r but the rule emits %d * order^4 points" % (adj, npf[adj], d["R"]))
        if not d["shear_ok"]:
            probs.append("final shear p0 -= p1 is not applied exactly once to both point sets%s" % ((" (found: %s)" % "; ".join(d["tail_wrong"])) if d.get("tail_wrong") else ""))
        if not d["ret_ok"]:
            probs.append("return tuple is not (points_test, points_trial, weights)")
        r_struct.check(not probs, adj, DG, "rule", d["line"], "duffy %s structure: %s" % (adj, "; ".join(probs)), "; ".join(probs))
        polys = []
        for k, (xt, xr, jk) in enumerate(d["regions"]):
            comps = [p_from_V(v) for v in (xt[0], xt[1], xr[0], xr[1])]
            jp = p_from_V(jk)
            mat = [[p_diff(c, i) for i in range(4)] for c in comps]
            dt = det4(mat)
            ok = dt == jp or p_add(dt, jp) == {}
            r_jac.check(ok, "%s region %d" % (adj, k + 1), DG, "rule", d["line"], "duffy %s region %d weight" % (adj, k + 1),
                        "weight polynomial is not the Jacobian determinant of the region's point map")
            polys.append((comps, jp))
        # exact integration of monomials
        bad = None
        nmono = 0
        pow_cache = {}
        for tot in range(max_degree + 1):
            for a, b, c, e in product(range(tot + 1), repeat=4):
                if a + b + c + e != tot:
                    continue
                nmono += 1
                s = F(0)
                for k, (comps, jp) in enumerate(polys):
                    term = jp
                    for ci, ex in zip(range(4), (a, b, c, e)):
                        if ex:
                            key = (k, ci, ex)
                            if key not in pow_cache:
                                pow_cache[key] = p_pow(comps[ci], ex)
                            term = p_mul(term, pow_cache[key])
                    s += p_int(term)
                evals += len(polys)
                if s != mono_exact(a, b) * mono_exact(c, e) and bad is None:
                    bad = (a, b, c, e, s, mono_exact(a, b) * mono_exact(c, e))
        r_int.check(bad is None, "%s (%d regions, %d monomials of degree <= %d)" % (adj, d["R"], nmono, max_degree), DG, "rule", d["line"],
                    "duffy %s monomial %s" % (adj, bad[:4] if bad else ""),
                    "monomial x^%s y^%s x'^%s y'^%s integrates to %s instead of %s" % (bad if bad else ("",) * 6))
        ctx.sample({"duffy": adj, "regions": d["R"], "monomials": nmono, "region1_test_map": [repr(v) for v in d["regions"][0][0]] if d["regions"] else []})
        if adj in ("coincident", "vertex_adjacent"):
            # mirrored pairs: region 2m+1 and 2m+2 are each other's test<->trial swap
            okm = d["R"] % 2 == 0
            if okm:
                for mth in range(d["R"] // 2):
                    a, b = d["regions"][2 * mth], d["regions"][2 * mth + 1]
                    okm = okm and all(x.eq(y) for x, y in zip(a[0] + a[1], b[1] + b[0])) and a[2].eq(b[2])
            r_mir.check(okm, adj, DG, "rule", d["line"], "duffy %s mirrored pairs" % adj, "regions are not test<->trial mirrored in consecutive pairs")
    return evals


# ---------------------------------------------------------------- remaps

REF = [(0, 0), (1, 0), (0, 1)]


def _run_remap(ctx, fname, lit_args):
    m = ctx.repo.mod(DG)
    fn = m.fn(fname)
    params = arg_names(fn)
    symex.reset()
    N = opaque_atom("#pts")
    symex.RANGES["J"] = N
    pts = Arr("P", "input", ndim=2, shape=[2, N])
    it = Interp(m, fn, dict(zip(params, [pts] + list(lit_args))), {"globals": {"_np": Opq("_np", "module")}})
    # every test of the function is decided by the literal arguments: what the run meets is what the call does
    try:
        r = it.run()
        if r is None:
            raise Wrong("%s%s returns nothing (no branch handles these valid indices)" % (fname, tuple(lit_args)))
        J = V.atom("J")
        env = {"P⟨0,J⟩": V.atom("ξ0"), "P⟨1,J⟩": V.atom("ξ1")}
        return [symex.tov(it.index(r, [c, J], fn)).subs(env) for c in range(2)]
    except AnalysisError as e:
        if isinstance(e, Wrong):
            raise
        if "reached a raise statement" in str(e):
            raise Wrong("%s%s raises for these valid indices" % (fname, tuple(lit_args)))
        if "tensor index out of range" in str(e):
            raise Wrong("%s%s indexes a literal table outside its extent (IndexError at run time)" % (fname, tuple(lit_args)))
        raise


def remaps(ctx):
    """remap_points_shared_edge(q, a, b) maps reference vertices (e0,e1,e2) -> (e_a, e_b, e_{3-a-b});
    remap_points_shared_vertex(q, v) exchanges vertex 0 with vertex v (affine, other vertex fixed)."""
    r = ctx.rule("REMAP-AFFINE", "the 6 shared-edge and 3 shared-vertex remaps are the stated affine maps of the reference triangle", 9)
    m = ctx.repo.mod(DG)
    x0, x1 = V.atom("ξ0"), V.atom("ξ1")

    def affine(images):
        # F(ξ) = e_img0 + ξ0 (e_img1 - e_img0) + ξ1 (e_img2 - e_img0)
        v0, v1, v2 = (REF[i] for i in images)
        return [V.const(v0[c]) + x0 * V.const(v1[c] - v0[c]) + x1 * V.const(v2[c] - v0[c]) for c in range(2)]

    for a in range(3):
        for b in range(3):
            if a == b:
                continue
            want = affine((a, b, 3 - a - b))
            try:
                got = _run_remap(ctx, "remap_points_shared_edge", [a, b])
            except Wrong as e:
                r.fail("shared_edge(%d,%d)" % (a, b), DG, "remap_points_shared_edge", m.fn("remap_points_shared_edge").lineno, "remap edge (%d,%d)" % (a, b), str(e))
                continue
            r.check(all(g.eq(w) for g, w in zip(got, want)), "shared_edge(%d,%d)" % (a, b), DG, "remap_points_shared_edge",
                    m.fn("remap_points_shared_edge").lineno, "remap edge (%d,%d)" % (a, b),
                    "maps the reference point to %s, expected %s" % (got, want))
    for v in range(3):
        images = [0, 1, 2]
        images[0], images[v] = images[v], images[0]
        want = affine(tuple(images))
        try:
            got = _run_remap(ctx, "remap_points_shared_vertex", [v])
        except Wrong as e:
            r.fail("shared_vertex(%d)" % v, DG, "remap_points_shared_vertex", m.fn("remap_points_shared_vertex").lineno, "remap vertex %d" % v, str(e))
            continue
        r.check(all(g.eq(w) for g, w in zip(got, want)), "shared_vertex(%d)" % v, DG, "remap_points_shared_vertex",
                m.fn("remap_points_shared_vertex").lineno, "remap vertex %d" % v, "maps the reference point to %s, expected %s" % (got, want))
