"""Singular-part plumbing (core/singular_assembler.py, core/dense_assembler.py): table agreement and roles."""

import ast

from . import roles, symex
from .alg import V
from .core import AnalysisError
from .src import arg_names, calls_in, unparse
from .symex import Arr, Interp, Opq, OpqArr, Tensor, opaque_atom, tov

SA = "bempp_cl/core/singular_assembler.py"
DA = "bempp_cl/core/dense_assembler.py"
NA = "bempp_cl/core/numba_assemblers.py"
CLS = "_SingularQuadratureRuleInterfaceGalerkin"


# ---------------------------------------------------------------- offset tables


def _self_hooks():
    def method(it, recv, meth, args, node):
        if isinstance(recv, Opq) and recv.desc == "self" and meth == "number_of_points" and len(args) == 1 and isinstance(args[0], str):
            return opaque_atom("N_" + args[0])
        return None

    return {"globals": {"_np": Opq("_np", "module")}, "method": method}


def offsets_tables(ctx):
    m = ctx.repo.mod(SA)
    out = {}
    for name in ("_compute_edge_offsets", "_compute_vertex_offsets"):
        fn = m.fn("%s.%s" % (CLS, name))
        symex.reset()
        it = Interp(m, fn, {"self": Opq("self", "self")}, _self_hooks())
        r = it.run()
        if not isinstance(r, Tensor):
            raise AnalysisError("%s does not return a literal-shaped table" % name)
        out[name] = r
    return out


def remap_order(ctx):
    """Order of the remap calls in the two hstack lists: [(a, b), ...] and [v, ...]."""
    m = ctx.repo.mod(SA)
    res = {}
    for meth, fname, nargs in (("_collect_remapped_quad_points_for_edge_adjacent_rule", "remap_points_shared_edge", 3),
                               ("_collect_remapped_quad_points_for_vertex_adjacent_rule", "remap_points_shared_vertex", 2)):
        fn = m.fn("%s.%s" % (CLS, meth))
        param = arg_names(fn)[1]
        rets = [s for s in fn.body if isinstance(s, ast.Return)]
        rv = roles.inline(rets[0].value, roles.Defs(fn)) if len(rets) == 1 and rets[0].value is not None else None
        if rv is None or not (isinstance(rv, ast.Call) and unparse(rv.func).endswith("hstack") and rv.args and isinstance(rv.args[0], ast.List)):
            raise AnalysisError("%s does not return an hstack of a literal list" % meth)
        seq = []
        for e in rv.args[0].elts:
            if not (isinstance(e, ast.Call) and unparse(e.func).endswith(fname) and len(e.args) == nargs and isinstance(e.args[0], ast.Name) and e.args[0].id == param
                    and all(isinstance(a, ast.Constant) for a in e.args[1:])):
                raise AnalysisError("%s: unexpected list element %s" % (meth, unparse(e)))
            seq.append(tuple(a.value for a in e.args[1:]))
        res[meth] = (seq, fn.lineno)
    return res


def check_offsets(ctx):
    r = ctx.rule("SING-OFFSETS", "edge/vertex offset tables equal the position of the matching remap in the stacked point arrays", 9)
    m = ctx.repo.mod(SA)
    tabs = offsets_tables(ctx)
    order = remap_order(ctx)
    eseq, eln = order["_collect_remapped_quad_points_for_edge_adjacent_rule"]
    vseq, vln = order["_collect_remapped_quad_points_for_vertex_adjacent_rule"]
    Nc, Ne, Nv = opaque_atom("N_coincident"), opaque_atom("N_edge_adjacent"), opaque_atom("N_vertex_adjacent")
    eo = tabs["_compute_edge_offsets"]
    fe = m.fn(CLS + "._compute_edge_offsets")
    if eo.shape != (3, 3):
        raise AnalysisError("edge offsets table is not 3x3")
    pairs = {(a, b) for a in range(3) for b in range(3) if a != b}
    r.check(set(eseq) == pairs and len(eseq) == 6, "edge remap list covers the 6 ordered vertex pairs", SA, CLS, eln, "edge remap list %s" % eseq,
            "stacked edge remaps are %s; every ordered pair of distinct local vertices must appear once" % eseq)
    for (a, b) in sorted(pairs):
        pos = eseq.index((a, b)) if (a, b) in eseq else None
        got = tov(eo.get([a, b]))
        ok = pos is not None and got.eq(Nc + Ne * V.const(pos))
        r.check(ok, "edge offset (%d,%d)" % (a, b), SA, CLS + "._compute_edge_offsets", fe.lineno, "edge offset (%d,%d) = %r" % (a, b, got),
                "offset for shared local vertices (%d,%d) is %r; the remap (%d,%d) is block %s of the edge-adjacent points (expected N_c + %s*N_e)" % (a, b, got, a, b, pos, pos))
    vo = tabs["_compute_vertex_offsets"]
    fv = m.fn(CLS + "._compute_vertex_offsets")
    r.check([v for (v,) in vseq] == sorted(v for (v,) in vseq) and len(vseq) == 3 and vo.shape == (3,), "vertex remap list", SA, CLS, vln, "vertex remap list %s" % vseq,
            "stacked vertex remaps are %s, expected one per local vertex" % vseq)
    for v in range(3):
        pos = [x for (x,) in vseq].index(v) if (v,) in vseq else None
        got = tov(vo.get([v]))
        ok = pos is not None and got.eq(Nc + Ne * V.const(len(eseq)) + Nv * V.const(pos))
        r.check(ok, "vertex offset %d" % v, SA, CLS + "._compute_vertex_offsets", fv.lineno, "vertex offset %d = %r" % (v, got),
                "offset for shared local vertex %d is %r, expected N_c + %d*N_e + %s*N_v" % (v, got, len(eseq), pos))
    ctx.sample({"edge_remap_order": eseq, "vertex_remap_order": vseq})


# ---------------------------------------------------------------- segment stores (coincident | edge | vertex)


class LinEnv:
    """Flow-sensitive evaluation of slice bounds as linear forms in C, E, V (pair counts)."""

    SYM = {"coincident": "C", "edge_adjacent": "E", "vertex_adjacent": "V"}

    def __init__(self):
        self.env = {}

    def ev(self, node):
        if node is None:
            return None
        if isinstance(node, ast.Constant) and isinstance(node.value, int):
            return {"1": node.value} if node.value else {}
        if isinstance(node, ast.Name):
            if node.id in self.env:
                return dict(self.env[node.id])
            raise AnalysisError("segment bound uses unknown name %s" % node.id)
        if isinstance(node, ast.Subscript) and unparse(node.value) in ("self.index_count", "self._index_count") and isinstance(node.slice, ast.Constant):
            k = node.slice.value
            if k == "all":
                return {"C": 1, "E": 1, "V": 1}
            if k in self.SYM:
                return {self.SYM[k]: 1}
        if isinstance(node, ast.BinOp) and isinstance(node.op, (ast.Add, ast.Sub)):
            a, b = self.ev(node.left), self.ev(node.right)
            s = 1 if isinstance(node.op, ast.Add) else -1
            out = dict(a)
            for k, v in b.items():
                out[k] = out.get(k, 0) + s * v
            return {k: v for k, v in out.items() if v}
        if isinstance(node, ast.UnaryOp) and isinstance(node.op, ast.USub):
            return {k: -v for k, v in self.ev(node.operand).items()}
        raise AnalysisError("segment bound is not a linear form: %s" % unparse(node))


SEGS = {"coincident": ({}, {"C": 1}), "edge": ({"C": 1}, {"C": 1, "E": 1}), "vertex": ({"C": 1, "E": 1}, {"C": 1, "E": 1, "V": 1})}


def _drop(form, zero):
    return {k: v for k, v in (form or {}).items() if k not in zero and v}


def _le(a, b):
    """a <= b for linear forms in non-negative symbols (sufficient: b - a has no negative coefficient)"""
    d = dict(b)
    for k, v in a.items():
        d[k] = d.get(k, 0) - v
    return all(v >= 0 for v in d.values())


def segments_of(lo, hi, zero=frozenset()):
    """Names of the non-empty segments (coincident | edge | vertex) that the slice [lo:hi] covers, in the world where the
    pair counts in `zero` are 0 and the others positive.  NumPy semantics of the bounds: a missing bound is the end, a
    bound that is NEGATIVE in this world counts from the end (n + bound), and a bound that is -x with x = 0 in this world
    is 0 - `a[-0:]` is the whole array, `a[:-0]` is empty.  A slice that cuts a segment in the middle is not modelled."""
    n = _drop({"C": 1, "E": 1, "V": 1}, zero)

    def norm(b, missing):
        if b is None:
            return dict(missing)
        b = _drop(b, zero)
        if b and all(v < 0 for v in b.values()):
            out = dict(n)
            for k, v in b.items():
                out[k] = out.get(k, 0) + v
            return {k: v for k, v in out.items() if v}
        return b

    lo, hi = norm(lo, {}), norm(hi, n)
    out = []
    for name, (l, h) in SEGS.items():
        l, h = _drop(l, zero), _drop(h, zero)
        if l == h:
            continue  # empty in this world
        if _le(lo, l) and _le(h, hi):
            out.append(name)
        elif _le(hi, l) or _le(h, lo):
            continue  # disjoint
        else:
            raise AnalysisError("segment store [%s:%s] cuts the %s segment" % (lo, hi, name))
    return out


def segment_stores(fn, unroll_zip=True, zero=frozenset()):
    """[(array, segment, canonical value)] for every `arr[lo:hi] = value` in a method, evaluated in program order."""
    le = LinEnv()
    defs = roles.Defs(fn)
    out = []

    def run(body, binding):
        for st in body:
            if isinstance(st, ast.Expr) and isinstance(st.value, ast.Constant):
                continue
            if isinstance(st, ast.Assign) and isinstance(st.targets[0], ast.Name):
                v = st.value
                if isinstance(v, ast.Call) and unparse(v.func).split(".")[-1] == "full" and len(v.args) >= 2:
                    for seg in segments_of(None, None, zero):  # np.full(n, value): every segment starts with that value
                        out.append((st.targets[0].id, seg, roles.canon(v.args[1], defs, keep=set(binding)), st.lineno))
                    continue
                try:
                    le.env[st.targets[0].id] = le.ev(st.value)
                except AnalysisError:
                    pass
                continue
            if isinstance(st, ast.AugAssign) and isinstance(st.target, ast.Name) and isinstance(st.op, (ast.Add, ast.Sub)):
                cur = le.env.get(st.target.id)
                if cur is None:
                    raise AnalysisError("augmented bound without value")
                add = le.ev(st.value)
                out_ = dict(cur)
                sg = 1 if isinstance(st.op, ast.Add) else -1
                for k, v in add.items():
                    out_[k] = out_.get(k, 0) + sg * v
                le.env[st.target.id] = {k: v for k, v in out_.items() if v}
                continue
            if isinstance(st, ast.Assign) and isinstance(st.targets[0], ast.Subscript) and isinstance(st.targets[0].slice, ast.Slice):
                t = st.targets[0]
                arr = unparse(t.value)
                arr = binding.get(arr, arr)
                val = roles.canon(st.value, defs, keep=set(binding))
                for k, v in binding.items():
                    val = val.replace(k, str(v)) if not isinstance(v, str) or True else val
                for seg in segments_of(le.ev(t.slice.lower), le.ev(t.slice.upper), zero):
                    out.append((arr, seg, val, st.lineno))
                continue
            if isinstance(st, ast.For) and isinstance(st.iter, ast.Call) and unparse(st.iter.func) == "zip" and isinstance(st.target, ast.Tuple):
                lists = st.iter.args
                if not all(isinstance(l, ast.List) for l in lists):
                    raise AnalysisError("zip over non-literal lists")
                n = len(lists[0].elts)
                for k in range(n):
                    b = dict(binding)
                    for tgt, l in zip(st.target.elts, lists):
                        e = l.elts[k]
                        b[tgt.id] = unparse(e) if not isinstance(e, ast.Constant) else e.value
                    saved = dict(le.env)
                    run(st.body, b)
                    le.env = saved
                continue
            if isinstance(st, ast.Return):
                continue
            raise AnalysisError("unsupported statement in %s: %s" % (fn.name, unparse(st)[:60]))

    run(fn.body, {})
    return out


def check_segments(ctx):
    m = ctx.repo.mod(SA)
    r = ctx.rule("SING-SEGMENTS", "per-pair arrays are filled in three segments (coincident | edge | vertex) with the matching adjacency rows, offsets and point counts", 17)
    want = {
        "_vectorize_offsets": {
            ("test_offsets", "coincident"): "0", ("test_offsets", "edge"): "self._compute_edge_offsets()[(self.edge_adjacency[(2,:)],self.edge_adjacency[(3,:)])]",
            ("test_offsets", "vertex"): "self._compute_vertex_offsets()[self.vertex_adjacency[(2,:)]]",
            ("trial_offsets", "coincident"): ["0", "_np.zeros(self.index_count['coincident'])"],
            ("trial_offsets", "edge"): "self._compute_edge_offsets()[(self.edge_adjacency[(4,:)],self.edge_adjacency[(5,:)])]",
            ("trial_offsets", "vertex"): "self._compute_vertex_offsets()[self.vertex_adjacency[(3,:)]]",
            ("weights_offsets", "coincident"): "0", ("weights_offsets", "edge"): "self.number_of_points('coincident')",
            ("weights_offsets", "vertex"): "(self.number_of_points('coincident')+self.number_of_points('edge_adjacent'))",
        },
        "_get_number_of_quad_points": {
            ("number_of_quad_points", "coincident"): "self.number_of_points('coincident')",
            ("number_of_quad_points", "edge"): "self.number_of_points('edge_adjacent')",
            ("number_of_quad_points", "vertex"): "self.number_of_points('vertex_adjacent')",
        },
        "_vectorize_indices": {
            ("test_indices", "coincident"): "self._coincident_indices", ("test_indices", "edge"): "self.edge_adjacency[(0,:)]", ("test_indices", "vertex"): "self.vertex_adjacency[(0,:)]",
            ("trial_indices", "coincident"): "self._coincident_indices", ("trial_indices", "edge"): "self.edge_adjacency[(1,:)]", ("trial_indices", "vertex"): "self.vertex_adjacency[(1,:)]",
        },
    }
    for meth, table in want.items():
        fn = m.fn("%s.%s" % (CLS, meth))
        # the arrays are identified by their position in the returned tuple, not by what the method calls them
        roles_in_order = []
        for k in table:
            if k[0] not in roles_in_order:
                roles_in_order.append(k[0])
        rets = [s for s in fn.body if isinstance(s, ast.Return)]
        rv = rets[-1].value if rets else None
        actual = [e.id for e in rv.elts] if isinstance(rv, ast.Tuple) and all(isinstance(e, ast.Name) for e in rv.elts) else ([rv.id] if isinstance(rv, ast.Name) else [])
        if len(actual) != len(roles_in_order):
            raise AnalysisError("%s.%s: does not return %d local arrays" % (CLS, meth, len(roles_in_order)))
        role_of = dict(zip(actual, roles_in_order))
        # worlds: all three kinds of pairs present; no vertex-adjacent pair (a tetrahedron); no edge-adjacent pair; neither
        # (a single element).  NumPy's slice bounds mean different things there (`a[-0:]` is the whole array).
        for zero, label in ((frozenset(), ""), (frozenset("V"), " [no vertex-adjacent pairs]"), (frozenset("E"), " [no edge-adjacent pairs]"), (frozenset("EV"), " [coincident pairs only]")):
            got = {}
            for arr, seg, val, ln in segment_stores(fn, zero=zero):
                got[(role_of.get(arr, arr), seg)] = (val.replace(" ", ""), ln)
            present = {"coincident"} | ({"edge"} if "E" not in zero else set()) | ({"vertex"} if "V" not in zero else set())
            for key, exp in table.items():
                if key[1] not in present:
                    continue
                exps = exp if isinstance(exp, list) else [exp]
                g = got.get(key)
                ok = g is not None and g[0] in [e.replace(" ", "") for e in exps]
                if zero and ok:
                    continue  # (the degenerate worlds are reported only when they deviate: instances are counted in the generic world)
                r.check(ok, "%s[%s]%s" % (key[0], key[1], label), SA, "%s.%s" % (CLS, meth), g[1] if g else fn.lineno, "%s segment %s = %s%s" % (key[0], key[1], g[0] if g else "missing", label),
                        "%s segment of %s is filled with `%s`, expected `%s`%s" % (key[1], key[0], g[0] if g else "nothing", exps[0], (" on a grid with" + label.strip(" []").replace("no ", " no ").replace("coincident pairs only", " coincident pairs only")) if label else ""))
    # point / weight stacking order
    r2 = ctx.rule("SING-STACK", "points and weights are stacked as [coincident, edge remaps, vertex remaps] / [coincident, edge, vertex]; get_arrays returns the 9 arrays in the order the assembler signature expects", 4)
    fp = m.fn(CLS + "._vectorize_points")
    dp = roles.Defs(fp)
    rets = [s for s in fp.body if isinstance(s, ast.Return)][0]
    tp, rp = [roles.canon(e, dp).replace(" ", "") for e in rets.value.elts]
    exp_p = lambda side: ("_np.hstack([self.coincident_rule.%s_points,self._collect_remapped_quad_points_for_edge_adjacent_rule(self.edge_adjacent_rule.%s_points),"
                          "self._collect_remapped_quad_points_for_vertex_adjacent_rule(self.vertex_adjacent_rule.%s_points)])" % (side, side, side))
    r2.check(tp == exp_p("test"), "test points stack", SA, CLS + "._vectorize_points", fp.lineno, "test points stack " + tp[:80], "test points are stacked as %s" % tp)
    r2.check(rp == exp_p("trial"), "trial points stack", SA, CLS + "._vectorize_points", fp.lineno, "trial points stack " + rp[:80], "trial points are stacked as %s" % rp)
    fw = m.fn(CLS + "._vectorize_weights")
    wv = roles.canon([s for s in fw.body if isinstance(s, ast.Return)][0].value, roles.Defs(fw)).replace(" ", "")
    r2.check(wv == "_np.hstack([self.coincident_rule.weights,self.edge_adjacent_rule.weights,self.vertex_adjacent_rule.weights])", "weights stack", SA, CLS + "._vectorize_weights",
             fw.lineno, "weights stack " + wv[:80], "weights are stacked as %s" % wv)
    fg = m.fn(CLS + ".get_arrays")
    dg = roles.Defs(fg)
    rv = [s.value for s in fg.body if isinstance(s, ast.Return)]
    arrs = rv[0] if len(rv) == 1 else None
    if isinstance(arrs, ast.Name):
        d = dg.defs.get(arrs.id)
        arrs = d[1] if d else None
    got = [roles.canon(e, dg).replace(" ", "") for e in arrs.elts] if isinstance(arrs, (ast.List, ast.Tuple)) else []
    exp = ["self._vectorize_points()[0]", "self._vectorize_points()[1]", "self._vectorize_weights()", "self._vectorize_indices()[0]", "self._vectorize_indices()[1]",
           "self._vectorize_offsets()[0]", "self._vectorize_offsets()[1]", "self._vectorize_offsets()[2]", "self._get_number_of_quad_points()"]
    if got != exp:
        # arrays that pass through module-level state (a memo table) have no provenance this rule can read: whether the
        # table returns what was computed for *this* request is C18's FX-PROCESS-STATE, not a stacking-order violation
        from . import state

        ext = sorted(set(state.module_state(m.tree)) & {n.id for n in ast.walk(fg) if isinstance(n, ast.Name)})
        if ext and any(x in g for x in ext for g in got):
            raise AnalysisError("get_arrays: arrays are taken from module-level table(s) %s; the order of the returned arrays cannot be read off the source" % ext)
    r2.check(got == exp, "get_arrays order", SA, CLS + ".get_arrays", fg.lineno, "get_arrays order %s" % got, "get_arrays returns %s" % got)
    # (the return order of the _vectorize_* methods is part of SING-SEGMENTS: the arrays are identified by their position
    # in the returned tuple, so an exchanged order shows as segments filled from the other side's adjacency rows)


# ---------------------------------------------------------------- support filters and role plumbing


def check_support_filters(ctx):
    m = ctx.repo.mod(SA)
    r = ctx.rule("SING-SUPPORT", "singular pairs are filtered with the TEST support on the first element and the TRIAL support on the second", 4)
    fn = m.fn(CLS + ".__init__")
    p = arg_names(fn)
    if len(p) != 5:
        raise AnalysisError("%s.__init__ signature changed" % CLS)
    T, R = p[3], p[4]
    defs = roles.Defs(fn)
    got = {}
    for st in ast.walk(fn):
        if isinstance(st, ast.Assign) and isinstance(st.targets[0], ast.Attribute) and isinstance(st.targets[0].value, ast.Name) and st.targets[0].value.id == "self":
            got[st.targets[0].attr] = (roles.canon(st.value, defs).replace(" ", ""), st.lineno)
    exp = {
        "_coincident_indices": "nz((%s))" % "*".join(sorted([T, R])),
        "_edge_adjacency": "grid.edge_adjacency[(:,nz((%s)))]" % "*".join(sorted(["%s[grid.edge_adjacency[(0,:)]]" % T, "%s[grid.edge_adjacency[(1,:)]]" % R])),
        "_vertex_adjacency": "grid.vertex_adjacency[(:,nz((%s)))]" % "*".join(sorted(["%s[grid.vertex_adjacency[(0,:)]]" % T, "%s[grid.vertex_adjacency[(1,:)]]" % R])),
    }
    for k, e in exp.items():
        g = got.get(k)
        r.check(g is not None and g[0] == e, k, SA, CLS + ".__init__", g[1] if g else fn.lineno, "%s = %s" % (k, g[0] if g else "missing"),
                "%s is `%s`, expected `%s`" % (k, g[0] if g else "missing", e))
    # the constructor call in assemble_singular_part: (grid, order, dual_to_range.support, domain.support)
    fa = m.fn("assemble_singular_part")
    pa = arg_names(fa)
    D, DT = pa[0], pa[1]
    da = roles.Defs(fa)
    calls = [c for c in calls_in(fa) if unparse(c.func) == CLS]
    got_args = [roles.canon(a, da) for a in calls[0].args] if len(calls) == 1 else None
    if not calls:
        # the constructor may sit behind a module-level helper that forwards its own parameters (a wrapper, a memo):
        # the roles are then those of the helper's call; whether a memo returns the right object is C18's rule
        for c in calls_in(fa):
            if isinstance(c.func, ast.Name) and m.has_fn(c.func.id):
                g = m.fn(c.func.id)
                gp = arg_names(g)
                inner = [x for x in calls_in(g) if unparse(x.func) == CLS]
                if len(inner) == 1 and all(isinstance(a, ast.Name) and a.id in gp for a in inner[0].args) and len(c.args) == len(gp) and not c.keywords:
                    bind = dict(zip(gp, c.args))
                    got_args = [roles.canon(bind[a.id], da) for a in inner[0].args]
                    calls = [c]
    ok = got_args == ["%s.grid" % D, "%s.quadrature.singular" % pa[2], "%s.support" % DT, "%s.support" % D]
    r.check(ok, "rule constructor arguments", SA, "assemble_singular_part", calls[0].lineno if calls else fa.lineno,
            "rule constructor args %s" % (got_args if got_args else "missing"),
            "singular rule is built with %s, expected (domain.grid, parameters.quadrature.singular, dual_to_range.support, domain.support)" % (got_args if got_args else "nothing"))


def check_result_layout(ctx):
    """i_ind / j_ind of assemble_singular_part decode slot nt*nr*pair + i*nr + j to flat (element, local dof) indices."""
    m = ctx.repo.mod(SA)
    fn = m.fn("assemble_singular_part")
    r = ctx.rule("SING-LAYOUT", "i_ind[slot] = ntest*test_element + i and j_ind[slot] = ntrial*trial_element + j for slot = ntest*ntrial*pair + i*ntrial + j (writer == reader layout)", 3)
    symex.reset()
    NT, NR, P = opaque_atom("#nshape_test"), opaque_atom("#nshape_trial"), opaque_atom("#pairs")

    try:
        rule = Opq("rule", "rule")
        tind = Arr("test_indices", "input", ndim=1, shape=[P])
        rind = Arr("trial_indices", "input", ndim=1, shape=[P])

        def attr(it, base, at, node):
            if base is rule and at == "test_indices":
                return tind
            if base is rule and at == "trial_indices":
                return rind
            return None

        # the locals by role: the rule object is the receiver of .get_arrays(); the returned triple is (rows, cols, values)
        recv = {c.func.value.id for c in calls_in(fn) if isinstance(c.func, ast.Attribute) and c.func.attr == "get_arrays" and isinstance(c.func.value, ast.Name)}
        ret = [s for s in fn.body if isinstance(s, ast.Return)]
        if len(recv) != 1 or len(ret) != 1 or not (isinstance(ret[0].value, ast.Tuple) and len(ret[0].value.elts) == 3):
            raise AnalysisError("assemble_singular_part: rule object (receiver of get_arrays) or `return (rows, cols, values)` not found")
        RULE = recv.pop()
        ret = ret[0]
        I, J, RES = ret.value.elts  # expressions (a local, or the index formula written in place)
        env = {RULE: rule, "_np": Opq("_np", "module")}
        it = Interp(m, fn, env, {"globals": {"_np": Opq("_np", "module")}, "attr": attr})
        # bind the two shape-function counts by provenance
        defs = roles.Defs(fn)
        pa = arg_names(fn)
        names = {}
        for nm, d in defs.defs.items():
            if d[0] == "expr":
                c = roles.canon(d[1], defs)
                if c == "%s.number_of_shape_functions" % pa[1]:
                    names[nm] = NT
                elif c == "%s.number_of_shape_functions" % pa[0]:
                    names[nm] = NR
        if len(names) != 2:
            raise AnalysisError("assemble_singular_part: shape function counts not found")
        it.env.update(names)
        simple = {st.targets[0].id: st for st in fn.body if isinstance(st, ast.Assign) and len(st.targets) == 1 and isinstance(st.targets[0], ast.Name)}
        wanted, todo = set(), [n.id for e in (I, J) for n in ast.walk(e) if isinstance(n, ast.Name)]
        while todo:
            nm = todo.pop()
            if nm in wanted or nm in names or nm == RULE or nm not in simple:
                continue
            wanted.add(nm)
            todo.extend(n.id for n in ast.walk(simple[nm].value) if isinstance(n, ast.Name))
        for st in fn.body:
            if isinstance(st, ast.Assign) and isinstance(st.targets[0], ast.Name) and st.targets[0].id in wanted:
                it.stmt(st)
        pair, i, j = symex.fresh("pair"), symex.fresh("i"), symex.fresh("j")
        symex.RANGES[pair], symex.RANGES[i], symex.RANGES[j] = P, NT, NR
        slot = NT * NR * V.atom(pair) + V.atom(i) * NR + V.atom(j)
        gi = tov(it.index(it.ev(I), [slot], fn))
        gj = tov(it.index(it.ev(J), [slot], fn))
        wi = NT * opaque_atom("test_indices", [V.atom(pair)]) + V.atom(i)
        wj = NR * opaque_atom("trial_indices", [V.atom(pair)]) + V.atom(j)
        ln = fn.lineno
        r.check(gi.eq(wi), "i_ind", SA, fn.name, ln, "i_ind[slot] = %r" % gi, "row index of slot (pair,i,j) is %r, expected ntest*test_indices[pair] + i" % gi)
        r.check(gj.eq(wj), "j_ind", SA, fn.name, ln, "j_ind[slot] = %r" % gj, "column index of slot (pair,i,j) is %r, expected ntrial*trial_indices[pair] + j" % gj)
        # the third returned array is the one the kernel launch wrote: last positional argument of the dispatcher call
        disp = [c for c in calls_in(fn) if unparse(c.func).endswith("singular_assembler_dispatcher")]
        filled = unparse(disp[0].args[-1]) if len(disp) == 1 and disp[0].args else None
        r.check(filled == unparse(RES), "return order", SA, fn.name, ret.lineno, "assemble_singular_part returns " + unparse(ret.value),
                "assemble_singular_part returns %s: the first two are decoded as row / column indices (above), the third must be the array handed to the singular kernels (`%s`)" % (unparse(ret.value), filled))
    finally:
        pass


def check_scatter(ctx):
    """Rows from the TEST local2global/multipliers, columns from the TRIAL ones, in both consumers of assemble_singular_part."""
    r = ctx.rule("SING-SCATTER", "singular values are scattered with rows = TEST local2global, cols = TRIAL local2global and one multiplier of each side; same grids_identical gate as the regular part", 8)
    for rel, fname, T, R, acc in ((DA, "assemble_dense", None, None, "add.at"), (SA, "SingularAssembler.assemble", None, None, "coo_matrix")):
        m = ctx.repo.mod(rel)
        fn = m.fn(fname)
        defs = roles.Defs(fn)
        if fname == "assemble_dense":
            pa = arg_names(fn)
            D, DT = pa[0], pa[1]
            call = "assemble_singular_part(%s.localised_space,%s.localised_space,%s,%s,%s)" % (D, DT, pa[2], pa[3], pa[4])
        else:
            D, DT = "return_compatible_representation(self.domain,self.dual_to_range)[0]", "return_compatible_representation(self.domain,self.dual_to_range)[1]"
            call = "assemble_singular_part(%s.localised_space,%s.localised_space,self.parameters,operator_descriptor,device_interface)" % (D, DT)
        rows_e = "%s.local2global.ravel()[%s[0]]" % (DT, call)
        cols_e = "%s.local2global.ravel()[%s[1]]" % (D, call)
        vals_e = "(" + "*".join(sorted(["%s[2]" % call, "%s.local_multipliers.ravel()[%s[1]]" % (D, call), "%s.local_multipliers.ravel()[%s[0]]" % (DT, call)])) + ")"
        sink = [c for c in calls_in(fn) if unparse(c.func).endswith(acc)]
        if len(sink) != 1:
            raise AnalysisError("%s: accumulation call %s not found" % (fname, acc))
        c = sink[0]
        if acc == "add.at":
            idx = c.args[1]
            rows, cols, vals = idx.elts[0], idx.elts[1], c.args[2]
        else:
            tup = c.args[0]
            vals, (rows, cols) = tup.elts[0], tup.elts[1].elts
        g = [roles.canon(x, defs).replace(" ", "") for x in (rows, cols, vals)]
        r.check(g[0] == rows_e, "%s rows" % fname, rel, fname, c.lineno, "%s rows = %s" % (fname, g[0][:100]), "row indices are `%s`, expected the TEST (dual_to_range) local2global at the first returned index array" % g[0][:200])
        r.check(g[1] == cols_e, "%s cols" % fname, rel, fname, c.lineno, "%s cols = %s" % (fname, g[1][:100]), "column indices are `%s`, expected the TRIAL (domain) local2global at the second returned index array" % g[1][:200])
        r.check(g[2] == vals_e, "%s values" % fname, rel, fname, c.lineno, "%s values = %s" % (fname, g[2][:100]), "values are `%s`, expected result * trial_multipliers[cols] * test_multipliers[rows]" % g[2][:300])
    # gate
    m = ctx.repo.mod(DA)
    fn = m.fn("assemble_dense")
    defs = roles.Defs(fn)
    pa = arg_names(fn)
    ifs = [s for s in fn.body if isinstance(s, ast.If)]
    gate = [s for s in ifs if any(unparse(c.func).endswith("add.at") for c in calls_in(s))]
    okg = len(gate) == 1 and roles.canon(gate[0].test, defs) == "(%s.grid Eq %s.grid)" % tuple(sorted([pa[0], pa[1]]))
    r.check(okg, "assemble_dense gate", DA, "assemble_dense", gate[0].lineno if gate else fn.lineno, "singular gate " + (roles.canon(gate[0].test, defs) if gate else "missing"),
            "the singular part is not gated by `domain.grid == dual_to_range.grid` (the expression that gates adjacency skipping)")
    # dispatcher argument order: assemble_dense -> dense_assembler(params); assemble_singular_part -> singular_assembler(params)
    for rel, fname, disp, target in ((DA, "assemble_dense", "dense_assembler_dispatcher", "dense_assembler"), (SA, "assemble_singular_part", "singular_assembler_dispatcher", "singular_assembler")):
        mm = ctx.repo.mod(rel)
        f = mm.fn(fname)
        cs = [c for c in calls_in(f) if unparse(c.func).endswith(disp)]
        tgt = arg_names(ctx.repo.mod(NA).fn(target))
        dd = roles.Defs(f)
        if len(cs) != 1:
            raise AnalysisError("%s: dispatcher call not found" % fname)
        got = [unparse(a) for a in cs[0].args]
        pf = arg_names(f)
        # roles by name: the callee's parameter names are the reference
        rename = {"kernel_options": "kernel_options", "grid": "grid"}
        ok = len(got) == len(tgt) and all(g == t or (t == "kernel_options" and roles.canon(cs[0].args[k], dd) == "operator_descriptor.options") or
                                          (t == "grid" and roles.canon(cs[0].args[k], dd) == "%s.grid" % pf[0]) for k, (g, t) in enumerate(zip(got, tgt)))
        r.check(ok, "%s -> %s argument order" % (fname, target), rel, fname, cs[0].lineno, "%s args %s" % (disp, got), "dispatcher receives %s, numba %s expects %s" % (got, target, tgt))
