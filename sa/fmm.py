"""FMM glue (api/fmm/*, FunctionSpace.map_to_points): near-field kernels, evaluator terms, index bounds, global state."""

import ast
import re

from . import assemblers as A
from . import kernels as K
from . import roles, symex
from .alg import I, Poly, V
from .core import AnalysisError
from .proto import NC, NCEval
from .src import arg_names, calls_in, dict_literals, unparse
from .symex import Arr, Interp, Opq, opaque_atom, tov

FH = "bempp_cl/api/fmm/helpers.py"
FA = "bempp_cl/api/fmm/fmm_assembler.py"
EX = "bempp_cl/api/fmm/exafmm.py"
SP = "bempp_cl/api/space/space.py"


# ---------------------------------------------------------------- near-field kernels


def near_field_kernels(ctx):
    r = ctx.rule("FMM-NEAR-KERNELS", "near-field kernels: component 0 == dense single-layer kernel, components 1-3 == its gradient in the target point; zero-distance entries zeroed in all 4 components", 12)
    m = ctx.repo.mod(FH)
    for fname, fam, nparams in (("laplace_kernel", "laplace", 0), ("modified_helmholtz_kernel", "modified_helmholtz", 1), ("helmholtz_kernel", "helmholtz", 2)):
        fn = m.fn(fname)
        p = arg_names(fn)
        symex.reset()
        NT, NS = opaque_atom("#targets"), opaque_atom("#sources")
        tp = Arr("TP", "input", ndim=2, shape=[3, NT])
        sp = Arr("SPT", "input", ndim=2, shape=[3, NS])
        kp = symex.Tensor((nparams,), [K.KR, K.KI][:nparams] if nparams == 2 else [K.W][:nparams])
        zero_fix = []

        def if_hook(it, st):
            t = st.test
            if isinstance(t, ast.Compare) and isinstance(t.ops[0], ast.Eq) and isinstance(t.comparators[0], ast.Constant) and t.comparators[0].value == 0:
                lhs = it.ev(t.left)
                # evaluate the branch on scratch: record which slots are zeroed, then roll the stores back
                marks = {id(a): len(a.stores) for a in it.env.values() if isinstance(a, Arr)}
                arrs = [a for a in it.env.values() if isinstance(a, Arr)]
                nw = len(it.writes)
                it.block(st.body)
                for w in it.writes[nw:]:
                    zero_fix.append((w[0].desc, w[2], w[3], lhs))
                del it.writes[nw:]
                for a in arrs:
                    del a.stores[marks[id(a)]:]
                return True
            return None

        from .alg import INV4PI

        def interpret(skip_sign):
            it_ = Interp(m, fn, {p[0]: tp, p[1]: sp, p[2]: kp, p[3]: Opq("dtype", "dtype"), p[4]: Opq("result_type", "dtype")},
                         {"globals": {"M_INV_4PI": INV4PI, "_np": Opq("_np", "module")}, "if": if_hook, "skip_sign": skip_sign})
            return it_, it_.run()

        it, res = interpret(False)
        if it.seen_sign_ifs:
            # a guard on the sign of a kernel parameter: the value where the guard fails must be the same function
            del zero_fix[:]
            it2, res2 = interpret(True)
            t_, j_ = symex.fresh("t"), symex.fresh("j")
            symex.RANGES[t_], symex.RANGES[j_] = NT, NS
            for c in range(4):
                slot = V.atom(t_) * V.const(4) * NS + V.const(4) * V.atom(j_) + V.const(c)
                if not tov(it.index(res, [slot], fn)).eq(tov(it2.index(res2, [slot], fn))):
                    from .core import SignGuard

                    raise SignGuard(FH, fname, fn.lineno, "sign guard: " + "; ".join(x for _, x in it.seen_sign_ifs),
                                    "the kernel applies part of its formula only when `%s`: for the other sign of that parameter component %d is a different function (the kernel is analytic in its parameters; "
                                    "a factor that depends on the parameter cannot be dropped on a half-line)" % ("`, `".join(x for _, x in it.seen_sign_ifs), c))
            del zero_fix[:]
            it, res = interpret(False)
        t, j = symex.fresh("t"), symex.fresh("j")
        symex.RANGES[t], symex.RANGES[j] = NT, NS
        env = {}
        for i in range(3):
            env[A._single_atom(opaque_atom("TP", [i, V.atom(t)]))] = K.X[i]
            env[A._single_atom(opaque_atom("SPT", [i, V.atom(j)]))] = K.Y[i]
        G = K.spec(fam + "_single_layer")
        want = [G] + [G.diff("x%d" % i) for i in range(3)]
        for c in range(4):
            slot = V.atom(t) * V.const(4) * NS + V.const(4) * V.atom(j) + V.const(c)
            got = tov(it.index(res, [slot], fn)).subs(env)
            r.check(got.eq(want[c]), "%s component %d" % (fname, c), FH, fname, fn.lineno, "%s component %d" % (fname, c),
                    "component %d differs from %s" % (c, "the dense single-layer kernel" if c == 0 else "d/dx_%d of the single-layer kernel (gradient in the target point)" % (c - 1)))
        # zero-distance fix covers the 4 components of the slot, value 0, guarded by dist == 0
        comps = set()
        for desc, idx, val, lhs in zero_fix:
            pz = idx[0].aspoly()
            if pz is not None and tov(val).iszero():
                c0 = pz.constval()
                comps.add(int(c0.re))
        r.check({0, 1, 2, 3} <= comps, "%s zero-distance fix" % fname, FH, fname, fn.lineno, "%s zero distance components %s" % (fname, sorted(comps)),
                "coincident source/target pairs are zeroed only in components %s" % sorted(comps))


# ---------------------------------------------------------------- evaluator terms


def _nc_function(fn, leaves, calls_hook):
    """Sequentially evaluate `name = expr` statements of a closure to NC terms and return the NC of its return."""
    env = dict(leaves)

    class E(NCEval):
        def ev(self, n):
            r = calls_hook(self, n)
            if r is not None:
                return r
            if isinstance(n, ast.Name) and n.id in env:
                return env[n.id]
            return NCEval.ev(self, n)

    ev = E({}, morphisms=())
    from . import roles

    defs = roles.Defs(fn)
    for st in fn.body:
        if isinstance(st, ast.Expr) and isinstance(st.value, ast.Constant):
            continue
        if isinstance(st, (ast.Import, ast.ImportFrom)):
            continue
        if isinstance(st, ast.Assign) and isinstance(st.targets[0], ast.Name):
            # a local may name a fragment that is no term on its own (`t = fmm_interface.evaluate(v)`, used as t[:, 0]):
            # its readers see the defining expression (roles.inline), so only a fragment that is a term is recorded
            try:
                env[st.targets[0].id] = ev.ev(roles.inline(st.value, defs))
            except AnalysisError:
                env.pop(st.targets[0].id, None)
            continue
        if isinstance(st, ast.Return):
            return ev.ev(roles.inline(st.value, defs))
        raise AnalysisError("evaluator closure %s: unsupported statement" % fn.name)
    raise AnalysisError("evaluator closure %s has no return" % fn.name)


def evaluator_terms(ctx):
    """Scalar FMM evaluators as non-commutative terms over the letters T (target map), S (source map), E_c (FMM component c),
    Nt_i / Ns_i (normal component diagonals), Ct_i / C_i (curl transforms), Sing (singular part)."""
    r = ctx.rule("FMM-EVALUATORS", "FMM evaluators: SL = T E0 S, DL = -T sum_i E_{1+i} Ns_i S, ADL = T sum_i Nt_i E_{1+i} S, hypersingular = sum_c Ct_c E0 C_c -/+ k^2 T sum_c Nt_c E0 Ns_c S, each + singular part", 6)
    m = ctx.repo.mod(FA)
    x = NC.op("x")
    T, S, Sing = NC.op("T"), NC.op("S"), NC.op("Sing")
    Ec = [NC.op("E%d" % c) for c in range(4)]
    Nt = [NC.op("Nt%d" % c) for c in range(3)]
    Ns = [NC.op("Ns%d" % c) for c in range(3)]
    Ct = [NC.op("Ct%d" % c) for c in range(3)]
    Cs = [NC.op("C%d" % c) for c in range(3)]
    k2 = NC.scalar("k") * NC.scalar("k")

    role = {}   # closure variable of the maker function -> what it is, by provenance (not by what it is called)
    cur = {}    # the closure being evaluated: its argument name

    def closure_roles(outer):
        p = arg_names(outer)
        if len(p) != 4:
            raise AnalysisError("%s: signature changed" % outer.name)
        FI, D, DT = p[1], p[2], p[3]
        role.clear()
        role[FI] = "FMM"
        inner = {id(y) for x in ast.walk(outer) if isinstance(x, ast.FunctionDef) and x is not outer for y in ast.walk(x)}
        from . import roles as _roles

        odefs = _roles.Defs(outer)
        for st in ast.walk(outer):
            if id(st) in inner or not isinstance(st, ast.Assign) or len(st.targets) != 1:
                continue
            t, txt = st.targets[0], unparse(_roles.inline(st.value, odefs)).replace(" ", "")
            if isinstance(t, ast.Name):
                if txt.startswith(D + ".map_to_points(") and "return_transpose" not in txt:
                    role[t.id] = "S"
                elif txt.startswith(DT + ".map_to_points(") and "return_transpose=True" in txt:
                    role[t.id] = "T"
                elif ".singular_part." in txt and "weak_form()" in txt:
                    role[t.id] = "Sing"
                elif txt.startswith("get_normals(%s," % D):
                    role[t.id] = "Ns"
                elif txt.startswith("get_normals(%s," % DT):
                    role[t.id] = "Nt"
            elif isinstance(t, ast.Tuple) and len(t.elts) == 2 and all(isinstance(e, ast.Name) for e in t.elts):
                a, b = (e.id for e in t.elts)
                if txt.startswith("compute_p1_curl_transformation(%s," % D):
                    role[a], role[b] = "C", "C^T(source)"
                elif txt.startswith("compute_p1_curl_transformation(%s," % DT):
                    role.setdefault(a, "C(target)")
                    role[b] = "Ct"
                elif isinstance(st.value, ast.Tuple) and len(st.value.elts) == 2 and all(isinstance(e, ast.Name) for e in st.value.elts):
                    # target transforms taken from the source side (legal only for equal spaces: rule FMM-CURL-REUSE)
                    if role.get(st.value.elts[1].id) == "C^T(source)":
                        role.setdefault(b, "Ct")

    def hook(ev, n):
        txt = unparse(n).replace(" ", "")
        is_fmm = lambda c: isinstance(c, ast.Call) and isinstance(c.func, ast.Attribute) and c.func.attr == "evaluate" and isinstance(c.func.value, ast.Name) and role.get(c.func.value.id) == "FMM"
        # fmm_interface.evaluate(arg)[:, c]
        if isinstance(n, ast.Subscript) and is_fmm(n.value) and isinstance(n.slice, ast.Tuple):
            c = n.slice.elts[1]
            if isinstance(c, ast.Constant):
                return Ec[c.value] * ev.ev(n.value.args[0])
        # np.sum(fmm_interface.evaluate(arg)[:, 1:] * target_normals, axis=1)
        if isinstance(n, ast.Call) and unparse(n.func).endswith("sum") and n.args and isinstance(n.args[0], ast.BinOp) and isinstance(n.args[0].op, ast.Mult):
            l, rr = n.args[0].left, n.args[0].right
            if (isinstance(l, ast.Subscript) and is_fmm(l.value) and unparse(l.slice).replace(" ", "") in ("(slice(None,None,None),slice(1,None,None))", ":,1:", "(:,1:)")) \
                    and isinstance(rr, ast.Name) and role.get(rr.id) == "Nt" and any(k.arg == "axis" and unparse(k.value) == "1" for k in n.keywords):
                arg = ev.ev(l.value.args[0])
                tot = NC()
                for i in range(3):
                    tot = tot + Nt[i] * Ec[1 + i] * arg
                return tot
        if isinstance(n, ast.Subscript) and isinstance(n.value, ast.Name) and isinstance(n.slice, ast.Tuple) and isinstance(n.slice.elts[1], ast.Constant) and isinstance(n.slice.elts[0], ast.Slice):
            if role.get(n.value.id) == "Nt":
                return Nt[n.slice.elts[1].value]
            if role.get(n.value.id) == "Ns":
                return Ns[n.slice.elts[1].value]
        if isinstance(n, ast.Subscript) and isinstance(n.value, ast.Name) and isinstance(n.slice, ast.Constant):
            if role.get(n.value.id) == "Ct":
                return Ct[n.slice.value]
            if role.get(n.value.id) == "C":
                return Cs[n.slice.value]
        if isinstance(n, ast.Name):
            if n.id == cur.get("x"):
                return x
            return {"T": T, "S": S, "Sing": Sing}.get(role.get(n.id)) or {"wavenumber": NC.scalar("k")}.get(n.id)
        if txt in ("operator_descriptor.options[0]+1j*operator_descriptor.options[1]", "operator_descriptor.options[0]"):
            return NC.scalar("k")
        return None

    def closures(fname):
        fn = m.fn(fname)
        closure_roles(fn)
        return {n.name: n for n in ast.walk(fn) if isinstance(n, ast.FunctionDef) and n is not fn}, fn

    cl, fn = closures("make_default_scalar")
    want = {
        "evaluate_single_layer": T * Ec[0] * S * x + Sing * x,
        "evaluate_double_layer": -(T * (Ec[1] * Ns[0] + Ec[2] * Ns[1] + Ec[3] * Ns[2]) * S * x) + Sing * x,
        "evaluate_adjoint_double_layer": T * (Nt[0] * Ec[1] + Nt[1] * Ec[2] + Nt[2] * Ec[3]) * S * x + Sing * x,
    }
    for name, w in want.items():
        if name not in cl:
            raise AnalysisError("make_default_scalar lost closure %s" % name)
        try:
            cur["x"] = arg_names(cl[name])[0]
            got = _nc_function(cl[name], {}, hook)
            ok, msg = got == w, "%s computes %r, expected %r" % (name, got, w)
        except AnalysisError:
            raise  # an expression the term algebra cannot read: cannot analyse, not a verdict
        r.check(ok, "make_default_scalar." + name, FA, "make_default_scalar", cl[name].lineno, "fmm term of " + name, msg)
    cl, fn = closures("make_scalar_hypersingular")
    curl = NC()
    nn = NC()
    for c in range(3):
        curl = curl + Ct[c] * Ec[0] * Cs[c] * x
        nn = nn + Nt[c] * Ec[0] * Ns[c] * S * x
    want = {
        "evaluate_laplace_hypersingular": curl + Sing * x,
        "evaluate_helmholtz_hypersingular": curl - k2 * T * nn + Sing * x,
        "evaluate_modified_helmholtz_hypersingular": curl + k2 * T * nn + Sing * x,
    }
    for name, w in want.items():
        if name not in cl:
            raise AnalysisError("make_scalar_hypersingular lost closure %s" % name)
        try:
            cur["x"] = arg_names(cl[name])[0]
            got = _nc_function(cl[name], {}, hook)
            ok, msg = got == w, "%s computes %r, expected %r" % (name, got, w)
        except AnalysisError:
            raise  # an expression the term algebra cannot read: cannot analyse, not a verdict
        r.check(ok, "make_scalar_hypersingular." + name, FA, "make_scalar_hypersingular", cl[name].lineno, "fmm term of " + name, msg)
    # selection of the closure by identifier
    r2 = ctx.rule("FMM-DISPATCH", "every registered boundary assembly type has an FMM evaluator branch; closures are selected by the matching identifier", 3)
    # Abstract execution of the selectors for every (identifier, assembly type) the boundary factories can produce:
    # the closure reached must be the one whose term was verified above for that kind of operator.
    from . import dispatch, factories

    ce = m.fn("create_evaluator")
    dparam = arg_names(ce)[0]
    descs = sorted({(s.lit("identifier"), s.lit("assembly_type")) for s in factories.sites(ctx, "boundary") if s.lit("identifier") and s.lit("assembly_type")})
    descs = [d for d in descs if d[1] in K.registries(ctx)["assembly_functions_regular"]]
    if len(descs) < 14:
        raise AnalysisError("only %d boundary operator descriptors with a dense assembly type found" % len(descs))
    missing, wrong = [], []
    for ident, at in descs:
        env = {dparam + ".identifier": ident, dparam + ".assembly_type": at}
        kind, node = dispatch.select(ce, env)
        if kind != "return" or not isinstance(node, ast.Call) or not isinstance(node.func, ast.Name) or not m.has_fn(node.func.id):
            missing.append(ident)
            continue
        maker = m.fn(node.func.id)
        env2 = {arg_names(maker)[0] + ".identifier": ident, arg_names(maker)[0] + ".assembly_type": at}
        k2_, n2 = dispatch.select(maker, env2)
        got = n2.id if k2_ == "return" and isinstance(n2, ast.Name) else None
        fam = next(f for f in ("modified_helmholtz", "helmholtz", "laplace", "maxwell") if ident.startswith(f))
        layer = ident[len(fam) + 1:].replace("_boundary", "")
        if at == "default_scalar":
            want_name = "evaluate_" + layer
        elif at.endswith("hypersingular"):
            want_name = "evaluate_%s_hypersingular" % fam
        else:
            want_name = "evaluate"
        if got != want_name:
            wrong.append("%s -> %s.%s (verified closure for this operator: %s)" % (ident, maker.name, got, want_name))
    r2.check(not missing, "create_evaluator", FA, "create_evaluator", ce.lineno, "create_evaluator misses %s" % missing, "operators without an FMM evaluator (create_evaluator returns None): %s" % missing)
    r2.check(not wrong, "closure selection", FA, "create_evaluator", ce.lineno, "fmm closure selection %s" % wrong[:2], "an operator is evaluated with the closure of a different operator: %s" % wrong)
    r2.ok("%d (identifier, assembly type) pairs executed abstractly" % len(descs))


# ---------------------------------------------------------------- index bounds of the point maps


def point_map_bounds(ctx):
    r = ctx.rule("FMM-BOUNDS", "map_space_to_points_impl: every write into the arrays allocated for (#support elements x nlocal) entries is provably inside that extent", 2)
    for rel in (SP, FH):
        m = ctx.repo.mod(rel)
        fn = m.fn("map_space_to_points_impl")
        p = arg_names(fn)
        symex.reset()
        hooks = A.Hooks(ctx, "fmm")
        hd = hooks.as_dict()
        N = lambda s: opaque_atom("#" + s)

        def opaque_call(it, f, args, node):
            if f.kind == "basis3":
                b = A.BasisEval(f.desc, args)
                b.ndim = 3
                return b
            return hooks.opaque_call(it, f, args, node)

        def shape(it, arr, axis):
            if isinstance(arr, A.BasisEval):
                return [N("dim"), N("nshape"), N("pts")][axis]
            return None

        hd["opaque_call"] = opaque_call
        hd["shape"] = shape
        env = {
            "grid_data": A.Grid("grid_data"), "local2global": Arr("local2global", "input", ndim=2, shape=[N("g"), N("nshape")]),
            "local_multipliers": Arr("local_multipliers", "input", ndim=2, shape=[N("g"), N("nshape")]), "normal_multipliers": Arr("normal_multipliers", "input", ndim=1, shape=[N("g")]),
            "support_elements": Arr("support_elements", "input", ndim=1, shape=[N("support")]), "numba_evaluate": Opq("numba_evaluate", "basis3"), "shape_fun": Opq("shape_fun", "shapeset_obj"),
            "local_points": Arr("local_points", "input", ndim=2, shape=[2, N("pts")]), "weights": Arr("weights", "input", ndim=1, shape=[N("pts")]), "number_of_shape_functions": N("nshape"),
        }
        if any(q not in env for q in p):
            raise AnalysisError("map_space_to_points_impl: unknown parameter among %s" % p)
        it = Interp(m, fn, {q: env[q] for q in p}, hd)
        it.run()
        bad = []
        n = 0
        for arr, op, idx, term, loops, node in it.writes:
            if arr.kind in ("empty", "zeros") and arr.shape is not None and len(idx) == 1 and not isinstance(arr.shape[0], int):
                n += 1
                if not symex._in_range(idx[0], tov(arr.shape[0])):
                    bad.append((arr.desc, symex.idx_str(idx[0]), symex.idx_str(tov(arr.shape[0])), getattr(node, "lineno", 0)))
        if n < 3:
            raise AnalysisError("map_space_to_points_impl (%s): only %d array writes analysed" % (rel, n))
        r.check(not bad, "%s::map_space_to_points_impl" % rel.split("/")[-1], rel, "map_space_to_points_impl", bad[0][3] if bad else fn.lineno,
                "writes outside the allocated extent: %s" % sorted({b[0] for b in bad}),
                "arrays allocated for %s entries are written at %s (indexed by element number, not by position in support_elements): out of bounds for any space whose support is not the leading elements"
                % (bad[0][2] if bad else "", [b[1] for b in bad][:2]))


# ---------------------------------------------------------------- row / column conventions of the FMM transforms


def _poly_of(node, defs, line=None):
    """Exact polynomial (alg.V) of an integer index expression; names resolve through single definitions, everything
    else is an atom named by its canonical text."""
    from .alg import V as _V

    if isinstance(node, ast.Constant) and isinstance(node.value, int):
        return _V.const(node.value)
    if isinstance(node, ast.BinOp) and isinstance(node.op, (ast.Add, ast.Sub, ast.Mult)):
        a, b = _poly_of(node.left, defs), _poly_of(node.right, defs)
        return a + b if isinstance(node.op, ast.Add) else a - b if isinstance(node.op, ast.Sub) else a * b
    if isinstance(node, ast.Name):
        d = defs.lookup(node.id, getattr(node, "lineno", line))
        if d is not None and d[0] == "expr":
            return _poly_of(d[1], defs)
        return _V.atom(node.id)
    return _V.atom(roles.canon(node, defs).replace(" ", ""))


def transform_values(ctx):
    """Entries of the three coefficient-to-point transforms: (basis | surface curl | divergence) of local function f at
    point q of the element, times quadrature weight and surface element; the true local multipliers enter once,
    through map_to_localised_space (the kernels get the localised space's all-ones multipliers)."""
    from .alg import V as _V

    r = ctx.rule("FMM-TRANSFORM-VALUES", "FMM transforms: entry (nq*element + q, 3*position + f) = w_q J_element * {RWG basis value, surface curl of P1 function, 2 l_f / J}; multipliers applied once via map_to_localised_space", 6)
    m = ctx.repo.mod(FA)
    specs = {
        "compute_rwg_basis_transform_impl": lambda E, F, Q, p: "BE(E, SE, QP, G, LM, NM)[:, F, Q] * (W[Q] * G.integration_elements[E])",
        "compute_rwg_div_transform_impl": None,
        "compute_p1_curl_transformation_impl": None,
    }
    for fname in specs:
        fn = m.fn(fname)
        defs = roles.Defs(fn)
        pa = arg_names(fn)
        S = roles.stores(fn.body, defs, lv=False)
        rets = [s for s in fn.body if isinstance(s, ast.Return)]
        D = rets[0].value.elts[0].id if rets and isinstance(rets[0].value, ast.Tuple) and isinstance(rets[0].value.elts[0], ast.Name) else None
        st = [s for s in S if D and isinstance(s.tnode, ast.Subscript) and unparse(s.tnode.value) == D and len(s.loops) == 3]
        ok, why, line = None, "data store not found", fn.lineno
        if len(st) == 1:
            s = st[0]
            line = s.node.lineno
            lE, lF, lQ = s.loops
            POS, E = lE.target.elts[0].id, lE.target.elts[1].id
            F_, Q = lF.target.id, lQ.target.id
            slot = s.tnode.slice.elts[-1] if isinstance(s.tnode.slice, ast.Tuple) else s.tnode.slice
            nq = _poly_of(lQ.iter.args[0], defs)
            slot_ok = _poly_of(slot, defs).eq(_V.const(3) * nq * _V.atom(POS) + _V.atom(F_) * nq + _V.atom(Q))
            G = pa[0]
            W = pa[-1]
            ex = lambda src, **kw: roles.expect(src, defs, line, lv=False, G=G, W=W, E=E, F=F_, Q=Q, **kw)
            if fname == "compute_rwg_basis_transform_impl":
                want = {ex("BE(E, SE, QP, G, LM, NM)[:, F, Q] * (W[Q] * G.integration_elements[E])", BE=pa[2], SE=pa[1], QP=pa[6], LM=pa[4], NM=pa[5])}
            elif fname == "compute_rwg_div_transform_impl":
                # 2 l_f w_q with l_f the length of local edge f (edge convention checked by EDGE-CONV)
                lens = [x for x in S if x.op == "=" and isinstance(x.tnode, ast.Subscript) and isinstance(x.vnode, ast.Call) and unparse(x.vnode.func).endswith("linalg.norm") and x.loops == (lE,)]
                LN = unparse(lens[0].tnode.value) if len(lens) == 3 else "?"
                want = {ex("2.0 * L[F] * W[Q]", L=LN), ex("2 * L[F] * W[Q]", L=LN)}
            else:
                ref = "_np.array([[-1, 1, 0], [-1, 0, 1]])"
                want = {ex("NM[E] * _np.cross(G.normals[E], (G.jac_inv_trans[E] @ %s)[:, F]) * (W[Q] * G.integration_elements[E])" % ref, NM=pa[2])}
            val_ok = s.value in want
            ok = slot_ok and val_ok and not s.guards
            why = "slot 3*nq*position + nq*f + q: %s; value `%s` %s" % (slot_ok, s.value[:150], "as expected" if val_ok else "differs from the expected %s" % sorted(want)[0][:150])
        r.check(ok, fname, FA, fname, line, "transform values of " + fname, why)
    # callers: the kernels get the localised space's multipliers, the true ones come from map_to_localised_space
    for fname, impl in (("compute_rwg_basis_transform", "compute_rwg_basis_transform_impl"), ("compute_rwg_div_transform", "compute_rwg_div_transform_impl"), ("compute_p1_curl_transformation", "compute_p1_curl_transformation_impl")):
        fn = m.fn(fname)
        defs = roles.Defs(fn)
        sp = arg_names(fn)[0]
        calls = [c for c in ast.walk(fn) if isinstance(c, ast.Call) and unparse(c.func) == impl]
        ok = len(calls) == 1
        why = "call of %s not found" % impl
        if ok:
            params = arg_names(m.fn(impl))
            got = {p: roles.canon(a, defs).replace(" ", "") for p, a in zip(params, calls[0].args)}
            want = {"grid_data": "%s.grid.data('double')" % sp, "support_elements": "%s.support_elements" % sp, "normal_multipliers": "%s.normal_multipliers" % sp,
                    "local_multipliers": "%s.localised_space.local_multipliers" % sp, "quad_points": "rule(quadrature_order)[0]", "weights": "rule(quadrature_order)[1]",
                    "shapeset_evaluate": "_rwg0_shapeset_evaluate", "basis_evaluate": "_numba_rwg0_evaluate"}
            bad = ["%s <- %s" % (p, got[p]) for p in got if p in want and got[p] != want[p]]
            src = unparse(fn).replace(" ", "")
            chain = src.count("aslinearoperator(%s.map_to_localised_space)" % sp) >= 1 and src.count("aslinearoperator(%s.dof_transformation)" % sp) >= 1
            ok = not bad and chain
            why = "arguments by role: %s; followed by @ map_to_localised_space @ dof_transformation: %s" % (bad or "ok", chain)
        r.check(ok, fname, FA, fname, fn.lineno, "transform caller " + fname, why)


def transform_rows(ctx):
    """The FMM evaluates at one point cloud with nq points per GRID element (Grid.map_to_point_cloud); every matrix
    that maps space coefficients to values at those points must therefore use row nq*element + q (element NUMBER),
    and column = localised dof (number_of_shape_functions * POSITION in support_elements + local index)."""
    from .alg import V as _V

    r = ctx.rule("FMM-ROWS", "FMM coefficient-to-point transforms number rows by element number (nq*element + q) like the point cloud and get_normals, and columns by localised dof (3*position + local)", 5)
    m = ctx.repo.mod(FA)
    for fname in ("compute_p1_curl_transformation_impl", "compute_rwg_basis_transform_impl", "compute_rwg_div_transform_impl"):
        fn = m.fn(fname)
        defs = roles.Defs(fn)
        pa = arg_names(fn)
        rets = [s for s in fn.body if isinstance(s, ast.Return)]
        if len(rets) != 1 or not isinstance(rets[0].value, ast.Tuple) or len(rets[0].value.elts) != 3 or not all(isinstance(e, ast.Name) for e in rets[0].value.elts):
            raise AnalysisError("%s: does not return (data, row indices, column indices) from locals" % fname)
        _, RI, CI = (e.id for e in rets[0].value.elts)
        S = roles.stores(fn.body, defs, lv=False)
        rs = [s for s in S if isinstance(s.tnode, ast.Subscript) and unparse(s.tnode.value) == RI]
        cs = [s for s in S if isinstance(s.tnode, ast.Subscript) and unparse(s.tnode.value) == CI]
        ok, why, line = None, "row/column index stores not found", fn.lineno
        if len(rs) == 1 and len(cs) == 1 and len(rs[0].loops) == 3 and rs[0].loops == cs[0].loops:
            lE, lF, lQ = rs[0].loops
            line = rs[0].node.lineno
            if isinstance(lE.target, ast.Tuple) and len(lE.target.elts) == 2 and roles.canon(lE.iter, defs).replace(" ", "") == "enumerate(support_elements)" and "support_elements" in pa:
                POS, ELEM = (_V.atom(e.id) for e in lE.target.elts)
                Fv, Q = _V.atom(lF.target.id), _V.atom(lQ.target.id)
                nq = _poly_of(lQ.iter.args[0], defs) if isinstance(lQ.iter, ast.Call) and unparse(lQ.iter.func) == "range" and len(lQ.iter.args) == 1 else None
                row, col = _poly_of(rs[0].vnode, defs), _poly_of(cs[0].vnode, defs)
                ok_r = nq is not None and row.eq(nq * ELEM + Q)
                ok_c = col.eq(_V.const(3) * POS + Fv)
                ok = ok_r and ok_c
                why = "row index is `%s` (must be nq*element + q with the element NUMBER: the point cloud has nq rows per grid element); column index is `%s` (must be 3*position + local function)" % (
                    unparse(rs[0].vnode), unparse(cs[0].vnode))
        r.check(ok, fname, FA, fname, line, "row/column convention of " + fname, why)
    # the normals the evaluators multiply with use the same row convention, over ALL grid elements
    fn = m.fn("get_normals")
    defs = roles.Defs(fn)
    S = [s for s in roles.stores(fn.body, defs, lv=False) if isinstance(s.tnode, ast.Subscript) and len(s.loops) == 2]
    okn, whyn = None, "normals store not found"
    if len(S) == 1:
        lE, lQ = S[0].loops
        first = S[0].tnode.slice.elts[0] if isinstance(S[0].tnode.slice, ast.Tuple) else S[0].tnode.slice
        e, q = _V.atom(lE.target.id), _V.atom(lQ.target.id)
        nq = _poly_of(lQ.iter.args[0], defs)
        full = roles.canon(lE.iter, defs).replace(" ", "") == "range(%s.grid.number_of_elements)" % arg_names(fn)[0]
        okn = full and _poly_of(first, defs).eq(nq * e + q) and S[0].value == roles.expect("S.grid.normals[E] * S.normal_multipliers[E]", defs, S[0].node.lineno, lv=False, S=arg_names(fn)[0], E=lE.target.id)
        whyn = "normals[%s] = %s over %s" % (unparse(first), unparse(S[0].vnode)[:60], unparse(lE.iter)[:50])
    r.check(okn, "get_normals", FA, "get_normals", fn.lineno, "row convention of get_normals", whyn)
    # the scalar point map (two copies): rows arange(elem*nlp, (elem+1)*nlp) by element number
    for rel in (SP, FH):
        fn = ctx.repo.mod(rel).fn("map_space_to_points_impl")
        defs = roles.Defs(fn)
        rets = [s for s in fn.body if isinstance(s, ast.Return)]
        VI = rets[0].value.elts[2].id if rets and isinstance(rets[0].value, ast.Tuple) and len(rets[0].value.elts) == 3 and isinstance(rets[0].value.elts[2], ast.Name) else None
        S = [s for s in roles.stores(fn.body, defs, lv=False) if VI and isinstance(s.tnode, ast.Subscript) and unparse(s.tnode.value) == VI]
        okm, whym = None, "point-row store not found"
        if len(S) == 1 and S[0].loops and isinstance(S[0].loops[0].target, ast.Tuple) and isinstance(S[0].vnode, ast.Call) and unparse(S[0].vnode.func).endswith("arange") and len(S[0].vnode.args) == 2:
            ELEM = _V.atom(S[0].loops[0].target.elts[1].id)
            lo, hi = (_poly_of(a, defs) for a in S[0].vnode.args)
            nlp = hi - lo
            okm = lo.eq(nlp * ELEM) and not any(at == S[0].loops[0].target.elts[0].id for at in nlp.atoms())
            whym = "point rows are arange(%s, %s): must be [nlp*element, nlp*(element+1)) with the element NUMBER" % (unparse(S[0].vnode.args[0]), unparse(S[0].vnode.args[1]))
        r.check(okm, "%s::map_space_to_points_impl" % rel.split("/")[-1], rel, "map_space_to_points_impl", fn.lineno, "row convention of map_space_to_points_impl (%s)" % rel.split("/")[-1], whym)


# ---------------------------------------------------------------- Maxwell and potential evaluators as NC terms


class _Comp:
    """Values with one NC term per column (the 4 columns of fmm_interface.evaluate, a slice of them, or a stacked triple)."""

    def __init__(self, cols):
        self.cols = list(cols)


class _ClosureEval:
    """Straight-line interpretation of an FMM evaluator closure into NC terms.  Supported: assignments, += / -= / *=,
    `for i in range(3)` (unrolled), list literals, fmm_interface.evaluate(v) (-> 4 columns E_c v), column selection,
    hstack/vstack of columns, reshape/.T (shape only), @ and * with scalars."""

    def __init__(self, leaves, Ec):
        self.env = dict(leaves)
        self.Ec = Ec

    def run(self, fn):
        try:
            self.block(fn.body)
        except _Return as r:
            return r.v
        raise AnalysisError("evaluator closure %s has no return" % fn.name)

    def block(self, body):
        for st in body:
            if isinstance(st, ast.Expr) and isinstance(st.value, ast.Constant):
                continue
            if isinstance(st, ast.Assign) and len(st.targets) == 1 and isinstance(st.targets[0], ast.Name):
                self.env[st.targets[0].id] = self.ev(st.value)
            elif isinstance(st, ast.AugAssign) and isinstance(st.target, ast.Name) and isinstance(st.op, (ast.Add, ast.Sub, ast.Mult)):
                cur, v = self.env[st.target.id], self.ev(st.value)
                self.env[st.target.id] = self.arith(type(st.op), cur, v)
            elif isinstance(st, ast.For) and isinstance(st.target, ast.Name) and isinstance(st.iter, ast.Call) and unparse(st.iter.func) == "range" and len(st.iter.args) == 1 \
                    and isinstance(st.iter.args[0], ast.Constant):
                for i in range(st.iter.args[0].value):
                    self.env[st.target.id] = i
                    self.block(st.body)
            elif isinstance(st, ast.Return):
                raise _Return(self.ev(st.value))
            else:
                raise AnalysisError("evaluator closure: unsupported statement `%s`" % unparse(st)[:60])

    def arith(self, op, a, b):
        if isinstance(a, _Comp) or isinstance(b, _Comp):
            if isinstance(a, _Comp) and isinstance(b, _Comp):
                if len(a.cols) != len(b.cols) or op is ast.Mult:
                    raise AnalysisError("evaluator closure: column-wise operation on different shapes")
                return _Comp([self.arith(op, x, y) for x, y in zip(a.cols, b.cols)])
            if op in (ast.Mult, ast.MatMult):
                return _Comp([self.arith(op, a, y) for y in b.cols]) if isinstance(b, _Comp) else _Comp([self.arith(op, x, b) for x in a.cols])
            raise AnalysisError("evaluator closure: sum of a column block and a vector")
        if not (isinstance(a, NC) and isinstance(b, NC)):
            raise AnalysisError("evaluator closure: arithmetic on non-terms")
        return a + b if op is ast.Add else a - b if op is ast.Sub else a * b

    def ev(self, n):
        if isinstance(n, ast.Name):
            if n.id in self.env:
                return self.env[n.id]
            raise AnalysisError("evaluator closure: unknown name %s" % n.id)
        if isinstance(n, ast.Constant):
            if isinstance(n.value, complex) and n.value == 1j:
                return NC.scalar("i")
            if isinstance(n.value, (int, float)) and not isinstance(n.value, bool) and n.value == int(n.value):
                return NC.const(int(n.value))
            raise AnalysisError("evaluator closure: constant %r" % (n.value,))
        if isinstance(n, ast.UnaryOp) and isinstance(n.op, ast.USub):
            return self.arith(ast.Mult, NC.const(-1), self.ev(n.operand))
        if isinstance(n, ast.BinOp):
            if isinstance(n.op, ast.Div):
                a, b = self.ev(n.left), self.ev(n.right)
                if not isinstance(b, NC):
                    raise AnalysisError("evaluator closure: division by a non-scalar")
                return self.arith(ast.Mult, a, b.inv_scalar())
            if isinstance(n.op, (ast.Add, ast.Sub, ast.Mult, ast.MatMult)):
                return self.arith(ast.Mult if isinstance(n.op, ast.MatMult) else type(n.op), self.ev(n.left), self.ev(n.right))
        if isinstance(n, ast.List):
            return [self.ev(x) for x in n.elts]
        if isinstance(n, ast.ListComp) and len(n.generators) == 1 and isinstance(n.generators[0].target, ast.Name) and not n.generators[0].ifs:
            it = n.generators[0].iter
            if isinstance(it, (ast.Tuple, ast.List)) and all(isinstance(e, ast.Constant) and isinstance(e.value, int) for e in it.elts):
                vals = [e.value for e in it.elts]
            elif isinstance(it, ast.Call) and unparse(it.func) == "range" and len(it.args) == 1 and isinstance(it.args[0], ast.Constant):
                vals = list(range(it.args[0].value))
            else:
                raise AnalysisError("evaluator closure: comprehension over a non-literal range")
            out, var = [], n.generators[0].target.id
            saved = self.env.get(var)
            for v in vals:
                self.env[var] = v
                out.append(self.ev(n.elt))
            if saved is None:
                self.env.pop(var, None)
            else:
                self.env[var] = saved
            return out
        if isinstance(n, ast.Attribute) and n.attr == "T":
            return self.ev(n.value)
        if isinstance(n, ast.Subscript):
            base = self.ev(n.value)
            sl = n.slice
            if isinstance(base, list):
                i = self.ev_int(sl)
                return base[i]
            if isinstance(sl, ast.Tuple) and len(sl.elts) == 2 and isinstance(sl.elts[0], ast.Slice) and sl.elts[0].lower is None and sl.elts[0].upper is None:
                c = sl.elts[1]
                if isinstance(base, _Comp):
                    if isinstance(c, ast.Slice):
                        lo = self.ev_int(c.lower) if c.lower is not None else 0
                        hi = self.ev_int(c.upper) if c.upper is not None else len(base.cols)
                        return _Comp(base.cols[lo:hi])
                    return base.cols[self.ev_int(c)]
            raise AnalysisError("evaluator closure: unsupported subscript %s" % unparse(n)[:60])
        if isinstance(n, ast.Call):
            f = unparse(n.func)
            if f == "fmm_interface.evaluate" and len(n.args) == 1:
                v = self.ev(n.args[0])
                if not isinstance(v, NC):
                    raise AnalysisError("evaluator closure: FMM applied to a non-vector")
                return _Comp([e * v for e in self.Ec])
            if isinstance(n.func, ast.Attribute) and n.func.attr == "reshape":
                return self.ev(n.func.value)
            if f.split(".")[-1] == "zeros":
                return NC()
            if f.split(".")[-1] in ("hstack", "vstack") and len(n.args) == 1 and isinstance(n.args[0], ast.List):
                cols = [self.ev(x) for x in n.args[0].elts]
                if len(cols) == 1 and isinstance(cols[0], _Comp):
                    return cols[0]
                flat = []
                for c in cols:
                    flat += c.cols if isinstance(c, _Comp) else [c]
                return _Comp(flat)
        raise AnalysisError("evaluator closure: expression outside the term subset: %s" % unparse(n)[:70])

    def ev_int(self, n):
        if isinstance(n, ast.Constant) and isinstance(n.value, int):
            return n.value
        if isinstance(n, ast.Name) and isinstance(self.env.get(n.id), int):
            return self.env[n.id]
        raise AnalysisError("evaluator closure: non-literal index %s" % unparse(n))


class _Return(Exception):
    def __init__(self, v):
        self.v = v


def _transform_bindings(maker, space_roles):
    """Bind the local names of a make_maxwell_* function to letters by what they are computed from:
    compute_rwg_basis_transform(S, order) -> (R(S), R(S)^T per component), compute_rwg_div_transform(S, order) -> (D(S), D(S)^T).
    space_roles maps the maker's space parameters to 'dom' / 'dual'.  Returns ({name: value}, problems)."""
    defs = roles.Defs(maker)
    S = roles.stores(maker.body, defs, lv=False)
    env, problems = {}, []
    guard_diff = None
    for s in S:
        if s.op != "=" or not isinstance(s.vnode, ast.Call) or s.loops:
            continue
        f = unparse(s.vnode.func)
        if f not in ("compute_rwg_basis_transform", "compute_rwg_div_transform"):
            continue
        sp = unparse(s.vnode.args[0])
        role = space_roles.get(sp)
        if role is None:
            problems.append("%s computed for unknown space `%s`" % (f, sp))
            continue
        tg = s.node.targets[0]
        if not (isinstance(tg, ast.Tuple) and len(tg.elts) == 2 and all(isinstance(e, ast.Name) for e in tg.elts)):
            problems.append("result of %s is not unpacked into (map, transposed map)" % f)
            continue
        if s.guards:
            # only: `if domain != dual_to_range:` re-deriving the TEST side from the dual space
            names = sorted(space_roles)
            ok_guard = len(s.guards) == 1 and s.guards[0][1] is True and s.guards[0][0].replace(" ", "") in ("(%s NotEq %s)" % (names[0], names[1]), "(%s NotEq %s)" % (names[1], names[0]))
            ok_guard = ok_guard or (len(s.guards) == 1 and s.guards[0][1] is True and "NotEq" in s.guards[0][0] and all(nm in s.guards[0][0] for nm in names))
            if not ok_guard or role != "dual":
                problems.append("conditional transform for `%s` under %s" % (sp, s.guards))
                continue
            guard_diff = True
        kind = "R" if f.endswith("basis_transform") else "D"
        fwd, tr = tg.elts[0].id, tg.elts[1].id
        if kind == "R":
            vals = ([NC.op("R%d[%s]" % (c, role)) for c in range(3)], [NC.op("Rt%d[%s]" % (c, role)) for c in range(3)])
        else:
            vals = (NC.op("D[%s]" % role), NC.op("Dt[%s]" % role))
        if fwd != "_":
            env[fwd] = vals[0]
        if tr != "_":
            env[tr] = vals[1]
    return env, problems, guard_diff


def maxwell_terms(ctx):
    """Maxwell boundary evaluators and all potential evaluators equal the operator terms of the dense integrands
    (assemblers.integrand specs): E = -ik sum_c Rt_c G R_c - (ik)^-1 Dt G D,  H = -sum_c Rt_c (grad_x G x R)_c, each + singular
    part; potentials SL = G S, DL = -sum_i d_i G Ns_i S, E-pot_c = ik G R_c - (ik)^-1 d_c G D, H-pot = grad_x G x R."""
    r = ctx.rule("FMM-MAXWELL-TERMS", "Maxwell FMM boundary evaluators and the FMM potential evaluators compute the operator terms of the dense integrands (test-side maps from dual_to_range when the spaces differ)", 6)
    m = ctx.repo.mod(FA)
    x = NC.op("x")
    Ec = [NC.op("E%d" % c) for c in range(4)]
    i_, k = NC.scalar("i"), NC.scalar("k")
    ik = i_ * k
    eps = {(0, 1, 2): 1, (1, 2, 0): 1, (2, 0, 1): 1, (0, 2, 1): -1, (2, 1, 0): -1, (1, 0, 2): -1}

    def closure(maker):
        cl = [n for n in maker.body if isinstance(n, ast.FunctionDef)]
        if len(cl) != 1:
            raise AnalysisError("%s: expected one evaluator closure" % maker.name)
        return cl[0]

    def wavenumber_leaves(maker):
        out = {}
        for st in maker.body:
            if isinstance(st, ast.Assign) and isinstance(st.targets[0], ast.Name):
                t = unparse(st.value).replace(" ", "")
                d = arg_names(maker)[0]
                if t in ("%s.options[0]+1j*%s.options[1]" % (d, d), "%s.options[0]+%s.options[1]*1j" % (d, d)):
                    out[st.targets[0].id] = k
        return out

    # ---- boundary operators
    for fname, kind in (("make_maxwell_electric_field_boundary", "E"), ("make_maxwell_magnetic_field_boundary", "H")):
        maker = m.fn(fname)
        pa = arg_names(maker)
        env, problems, cond = _transform_bindings(maker, {pa[2]: "dom", pa[3]: "dual"})
        env.update(wavenumber_leaves(maker))
        env["x"] = x
        sing = [st.targets[0].id for st in maker.body if isinstance(st, ast.Assign) and isinstance(st.targets[0], ast.Name)
                and unparse(st.value).replace(" ", "") == "%s.singular_part.weak_form().to_sparse()" % pa[0]]
        for nm in sing:
            env[nm] = NC.op("Sing")
        cl = closure(maker)
        env[arg_names(cl)[0]] = x
        # with equal spaces the domain's transposed maps serve as test maps; otherwise they must be recomputed from dual_to_range
        for variant in ("same", "different"):
            e2 = dict(env)
            if variant == "same":
                # names bound to the dual role only under the `!=` guard fall back to the domain's transposes
                d2, _, _ = _transform_bindings_unguarded(maker, {pa[2]: "dom", pa[3]: "dual"})
                e2.update(d2)
                role_t = "dom"
            else:
                role_t = "dual"
            Rt = [NC.op("Rt%d[%s]" % (c, role_t)) for c in range(3)]
            R = [NC.op("R%d[dom]" % c) for c in range(3)]
            Dt, D = NC.op("Dt[%s]" % role_t), NC.op("D[dom]")
            if kind == "E":
                want = NC()
                for c in range(3):
                    want = want - ik * Rt[c] * Ec[0] * R[c] * x
                want = want - ik.inv_scalar() * Dt * Ec[0] * D * x + NC.op("Sing") * x
            else:
                want = NC.op("Sing") * x
                for (c, a, b), sg in eps.items():
                    want = want - NC.const(sg) * Rt[c] * Ec[1 + a] * R[b] * x
            try:
                got = _ClosureEval(e2, Ec).run(cl)
                ok, msg = isinstance(got, NC) and got == want and not problems, "%s (%s spaces) computes %r, expected %r%s" % (fname, variant, got, want, "; " + "; ".join(problems) if problems else "")
            except AnalysisError:
                raise  # an expression the term algebra cannot read: cannot analyse, not a verdict
            r.check(ok, "%s [%s spaces]" % (fname, variant), FA, fname, cl.lineno, "fmm term of %s (%s spaces)" % (fname, variant), msg)
    # ---- potentials
    for fname, kind in (("make_maxwell_electric_field_potential", "E"), ("make_maxwell_magnetic_field_potential", "H")):
        maker = m.fn(fname)
        pa = arg_names(maker)
        env, problems, _ = _transform_bindings(maker, {pa[2]: "dom"})
        env.update(wavenumber_leaves(maker))
        cl = closure(maker)
        env[arg_names(cl)[0]] = x
        R = [NC.op("R%d[dom]" % c) for c in range(3)]
        D = NC.op("D[dom]")
        if kind == "E":
            want = [ik * Ec[0] * R[c] * x - ik.inv_scalar() * Ec[1 + c] * D * x for c in range(3)]
        else:
            want = [NC() for _ in range(3)]
            for (c, a, b), sg in eps.items():
                want[c] = want[c] + NC.const(sg) * Ec[1 + a] * R[b] * x
        try:
            got = _ClosureEval(env, Ec).run(cl)
            ok = isinstance(got, _Comp) and len(got.cols) == 3 and all(g == w for g, w in zip(got.cols, want)) and not problems
            msg = "%s computes %r, expected %r" % (fname, got.cols if isinstance(got, _Comp) else got, want)
        except AnalysisError:
            raise  # an expression the term algebra cannot read: cannot analyse, not a verdict
        r.check(ok, fname, FA, fname, cl.lineno, "fmm term of " + fname, msg)
    # scalar potentials
    maker = m.fn("make_default_scalar_potential")
    pa = arg_names(maker)
    S_ = NC.op("S")
    Ns = [NC.op("Ns%d" % c) for c in range(3)]
    leaves = {"x": x}
    for st in maker.body:
        if isinstance(st, ast.Assign) and isinstance(st.targets[0], ast.Name):
            v = st.value
            if isinstance(v, ast.Call) and unparse(v.func) == "%s.map_to_points" % pa[2]:
                leaves[st.targets[0].id] = S_
            if isinstance(v, ast.Call) and unparse(v.func) == "get_normals" and unparse(v.args[0]) == pa[2]:
                leaves[st.targets[0].id] = _Comp(Ns)
    cls = {n.name: n for n in maker.body if isinstance(n, ast.FunctionDef)}
    want = {"evaluate_single_layer": Ec[0] * S_ * x, "evaluate_double_layer": NC() - (Ec[1] * Ns[0] + Ec[2] * Ns[1] + Ec[3] * Ns[2]) * S_ * x}
    for name, w in want.items():
        if name not in cls:
            raise AnalysisError("make_default_scalar_potential lost closure %s" % name)
        env = dict(leaves)
        env[arg_names(cls[name])[0]] = x
        try:
            got = _ClosureEval(env, Ec).run(cls[name])
            ok, msg = isinstance(got, NC) and got == w, "%s computes %r, expected %r" % (name, got, w)
        except AnalysisError:
            raise  # an expression the term algebra cannot read: cannot analyse, not a verdict
        r.check(ok, "make_default_scalar_potential." + name, FA, "make_default_scalar_potential", cls[name].lineno, "fmm term of potential " + name, msg)


def _transform_bindings_unguarded(maker, space_roles):
    """Bindings from the unguarded transform computations only (what holds when domain == dual_to_range)."""
    defs = roles.Defs(maker)
    env = {}
    for s in roles.stores(maker.body, defs, lv=False):
        if s.op != "=" or not isinstance(s.vnode, ast.Call) or s.loops or s.guards:
            continue
        f = unparse(s.vnode.func)
        if f not in ("compute_rwg_basis_transform", "compute_rwg_div_transform"):
            continue
        role = space_roles.get(unparse(s.vnode.args[0]))
        tg = s.node.targets[0]
        if role is None or not (isinstance(tg, ast.Tuple) and len(tg.elts) == 2):
            continue
        kind = "R" if f.endswith("basis_transform") else "D"
        vals = ([NC.op("R%d[%s]" % (c, role)) for c in range(3)], [NC.op("Rt%d[%s]" % (c, role)) for c in range(3)]) if kind == "R" else (NC.op("D[%s]" % role), NC.op("Dt[%s]" % role))
        for e, v in zip(tg.elts, vals):
            if isinstance(e, ast.Name) and e.id != "_":
                env[e.id] = v
    return env, [], None


# ---------------------------------------------------------------- near-field correction: neighbour set and flat layouts


def near_field_layout(ctx):
    """numba_evaluate_local_interactions / get_local_interaction_matrix_impl: the correction runs over exactly the
    CSR element neighbours (elements sharing a vertex, self included: the pairs the dense assembler treats as
    singular), reads the kernel output in the layout the kernels write (4*(t*NS + j) + c), addresses rows as
    4*(global target point) + c (what ExafmmInterface.evaluate reshapes to (-1, 4)) and columns / coefficients as
    global source points numbered element-major."""
    from .alg import V as _V

    r = ctx.rule("FMM-NEAR-LAYOUT", "near-field correction: source elements = CSR neighbours of the target element; kernel output read at 4*(t*NS + j) + c; rows 4*(np*target + t) + c; columns np*source + s", 7)
    m = ctx.repo.mod(FH)
    for fname in ("numba_evaluate_local_interactions", "get_local_interaction_matrix_impl"):
        fn = m.fn(fname)
        defs = roles.Defs(fn)
        S = roles.stores(fn.body, defs, lv=False)
        G = arg_names(fn)[0]
        # deepest stores: 5 loops (target element, target point, component, source element index, source point)
        deep = [s for s in S if len(s.loops) == 5 and isinstance(s.tnode, ast.Subscript)]
        ok, why, line = None, "innermost stores not found", fn.lineno
        if deep:
            lT, lP, lC, lS, lQ = deep[0].loops
            line = deep[0].node.lineno
            names = [l.target.id if isinstance(l.target, ast.Name) else None for l in (lT, lP, lC, lS, lQ)]
            if all(names):
                te, tp, ci, sei, spi = (_V.atom(n) for n in names)
                npnt = _poly_of(lP.iter.args[0], defs) if isinstance(lP.iter, ast.Call) and len(lP.iter.args) == 1 else None
                nn = _poly_of(lS.iter.args[0], defs) if isinstance(lS.iter, ast.Call) and len(lS.iter.args) == 1 else None
                four = isinstance(lC.iter, ast.Call) and len(lC.iter.args) == 1 and isinstance(lC.iter.args[0], ast.Constant) and lC.iter.args[0].value == 4
                same_np = npnt is not None and isinstance(lQ.iter, ast.Call) and len(lQ.iter.args) == 1 and _poly_of(lQ.iter.args[0], defs).eq(npnt)
                # neighbour set
                nbr = roles.expect("_np.sort(G.element_neighbor_indices[G.element_neighbor_indexptr[T]:G.element_neighbor_indexptr[1 + T]])", defs, lS.lineno, lv=False, G=G, T=names[0])
                se_defs = [s for s in S if s.op == "=" and isinstance(s.tnode, ast.Name) and s.loops == (lT,) and s.value in (nbr, nbr.replace("_np.sort(", "", 1)[:-1])]
                nn_want = roles.expect("G.element_neighbor_indexptr[1 + T] - G.element_neighbor_indexptr[T]", defs, lS.lineno, lv=False, G=G, T=names[0])
                nn_ok = roles.canon(lS.iter.args[0], defs).replace(" ", "") == nn_want if nn is not None else False
                set_ok = len(se_defs) == 1 and nn_ok
                SEname = se_defs[0].target if se_defs else None
                # the reads of the kernel output and of the coefficients inside the innermost statement(s)
                reads = []
                for s in deep:
                    for n in ast.walk(s.vnode):
                        if isinstance(n, ast.Subscript) and isinstance(n.value, ast.Name) and not isinstance(n.slice, (ast.Tuple, ast.Slice)):
                            reads.append((n.value.id, n.slice))
                inter = [ix for nm, ix in reads if defs.lookup(nm, line) and isinstance(defs.lookup(nm, line)[1], ast.Call) and unparse(defs.lookup(nm, line)[1].func) == arg_names(fn)[3 if fname.startswith("numba") else 2]]
                lay_ok = bool(inter) and nn is not None and npnt is not None and all(_poly_of(ix, defs).eq(_V.const(4) * tp * nn * npnt + _V.const(4) * sei * npnt + _V.const(4) * spi + ci) for ix in inter)
                SE = _V.atom(roles.expect("SE[K]", defs, line, lv=False, SE=SEname, K=names[3])) if SEname else None
                col_want = (npnt * SE + spi) if SE is not None and npnt is not None else None
                row_want = (_V.const(4) * npnt * te + _V.const(4) * tp + ci) if npnt is not None else None
                if fname.startswith("numba"):
                    acc = [s for s in deep if s.op == "Add="]
                    row_ok = len(acc) == 1 and row_want is not None and _poly_of(acc[0].tnode.slice, defs).eq(row_want)
                    coefs = [ix for nm, ix in reads if nm == arg_names(fn)[1]]
                    col_ok = len(coefs) == 1 and col_want is not None and _poly_of(coefs[0], defs).eq(col_want)
                else:
                    idx = [s for s in deep if s.op == "=" and unparse(s.tnode.value) not in ("data",) and "source_element" in unparse(s.vnode) or (s.op == "=" and col_want is not None and _safe_eq(_poly_of(s.vnode, defs), col_want))]
                    col_ok = any(col_want is not None and _safe_eq(_poly_of(s.vnode, defs), col_want) for s in deep if s.op == "=")
                    ptr = [s for s in S if len(s.loops) == 3 and s.loops == (lT, lP, lC) and isinstance(s.tnode, ast.Subscript) and s.op == "="]
                    row_ok = len(ptr) == 1 and row_want is not None and _poly_of(ptr[0].tnode.slice, defs).eq(row_want)
                # every target element / point / component and every neighbour / source point is processed: no iteration of
                # the five loops is skipped or cut short (the neighbour list of an element always contains the element itself,
                # whose own contribution the singular part integrates as well)
                skips = [n for n in ast.walk(lT) if isinstance(n, (ast.Continue, ast.Break, ast.Return))]
                guarded = [s for s in deep if s.guards]
                if skips or guarded:
                    r.fail(fname + " (all pairs processed)", FH, fname, (skips[0].lineno if skips else guarded[0].node.lineno), "near-field loops of " + fname,
                           "the near-field correction %s: for those target elements the point-source contribution of the element itself and of its neighbours stays in the FMM result although the singular part integrates the same pairs" % (
                               "leaves an iteration of its loops early (`%s` at line %d)" % (type(skips[0]).__name__.lower(), skips[0].lineno) if skips else "accumulates only under `%s`" % (guarded[0].guards[-1][0][:60],)))
                ok = four and same_np and set_ok and lay_ok and row_ok and col_ok
                why = "4 components: %s; same point count for targets and sources: %s; source elements = sorted CSR neighbours of the target with matching count: %s; kernel output read at 4*(t*NS + j) + c: %s; rows 4*(np*target + t) + c: %s; columns np*source element + s: %s" % (
                    four, same_np, set_ok, lay_ok, row_ok, col_ok)
        r.check(ok, fname, FH, fname, line, "near-field layout of " + fname, why)
    # the consumer: ExafmmInterface.evaluate subtracts (correction @ vec).reshape([-1, 4])
    ex = ctx.repo.mod(EX).fn("ExafmmInterface.evaluate")
    d = roles.Defs(ex)
    sub = [s for s in roles.stores(ex.body, d, lv=False) if s.op == "Sub=" and isinstance(s.tnode, ast.Name)]
    vec = arg_names(ex)[1]
    okc = len(sub) == 1 and sub[0].value.replace(" ", "") == ("(self._singular_correction@%s).reshape([USub(1),4])" % vec) and any("apply_singular_correction" in g[0] for g in sub[0].guards)
    r.check(okc, "ExafmmInterface.evaluate", EX, ex.name, sub[0].node.lineno if sub else ex.lineno, "near-field correction consumer", "the correction is not subtracted as (correction @ vec).reshape([-1, 4]) (rows = 4*target point + component)")
    # geometry of the local point sets: column block sei of the source points = points of source element sei
    for fname in ("numba_evaluate_local_interactions", "get_local_interaction_matrix_impl"):
        fn = m.fn(fname)
        defs = roles.Defs(fn)
        S = roles.stores(fn.body, defs, lv=False)
        blk = [s for s in S if len(s.loops) == 2 and isinstance(s.tnode, ast.Subscript) and isinstance(s.tnode.slice, ast.Tuple) and s.op == "="]
        okb = False
        if len(blk) == 1:
            lT, lS = blk[0].loops
            sei = lS.target.id
            npn = "local_points.shape[1]" if "local_points" in arg_names(fn) else None
            want_t = roles.expect("A[:, N * K:N * (1 + K)]", defs, blk[0].node.lineno, lv=False, A=unparse(blk[0].tnode.value), N="%s.shape[1]" % arg_names(fn)[2 if fname.startswith("numba") else 1], K=sei)
            se_names = [s.target for s in S if s.op == "=" and isinstance(s.tnode, ast.Name) and s.loops == (lT,) and "element_neighbor_indices" in s.value]
            v = blk[0].vnode
            okb = blk[0].target == want_t and isinstance(v, ast.Subscript) and isinstance(v.value, ast.Name) and any(
                blk[0].value == roles.expect("GP[SE[K], :, :]", defs, blk[0].node.lineno, lv=False, GP=v.value.id, SE=nm, K=sei) for nm in se_names)
        r.check(okb, fname + " source point blocks", FH, fname, blk[0].node.lineno if blk else fn.lineno, "near-field source blocks of " + fname, "column block j of the local source points is not the point set of the j-th neighbouring element")
        gp = [s for s in S if len(s.loops) == 1 and s.op == "=" and isinstance(s.tnode, ast.Subscript) and isinstance(s.vnode, ast.Call) and unparse(s.vnode.func).endswith(".local2global")]
        okg = False
        if len(gp) == 1 and isinstance(gp[0].loops[0].target, ast.Name):
            e_ = gp[0].loops[0].target.id
            LP = arg_names(fn)[2 if fname.startswith("numba") else 1]
            okg = (gp[0].value == roles.expect("G.local2global(E, LP)", defs, gp[0].node.lineno, lv=False, G=arg_names(fn)[0], E=e_, LP=LP)
                   and gp[0].target == roles.expect("A[E, :, :]", defs, gp[0].node.lineno, lv=False, A=unparse(gp[0].tnode.value), E=e_)
                   and roles.canon(gp[0].loops[0].iter, defs).replace(" ", "") == roles.expect("range(G.elements.shape[1])", defs, gp[0].node.lineno, lv=False, G=arg_names(fn)[0]))
        r.check(okg, fname + " global points", FH, fname, gp[0].node.lineno if gp else fn.lineno, "near-field global points of " + fname, "global_points[e] is not grid_data.local2global(e, local_points) for every element e")


def _safe_eq(a, b):
    try:
        return a.eq(b)
    except Exception:
        return False
