"""Exact-arithmetic interpretation of small table accessors (``rule(order)``).

The accessor's AST is interpreted by the checker over exact decimals read from the literal tables, each
carrying an absolute error bound (half a unit in the last printed digit).  Only the handful of numpy
operations the accessors use are modelled; anything else is an AnalysisError.
"""

import ast
from decimal import Decimal

from .core import AnalysisError


class Raised(Exception):
    def __init__(self, exc):
        self.exc = exc


class NDA:
    """Dense array of (value, abs-error) pairs, C-order flat storage."""

    def __init__(self, shape, v, e):
        self.shape = tuple(shape)
        self.v = list(v)
        self.e = list(e)

    @staticmethod
    def from_lits(lits):
        return NDA((len(lits),), [l.v for l in lits], [l.h for l in lits])

    def __len__(self):
        return self.shape[0]


class Ret(Exception):
    def __init__(self, v):
        self.v = v


class Mini:
    def __init__(self, module, globals_):
        self.module = module
        self.g = globals_
        self.subscripts = 0

    def call(self, fname, args):
        fn = self.module.fn(fname)
        params = [a.arg for a in fn.args.args]
        env = dict(zip(params, args))
        try:
            self.block(fn.body, env)
        except Ret as r:
            return r.v
        return None

    def block(self, body, env):
        for st in body:
            if isinstance(st, ast.Expr) and isinstance(st.value, ast.Constant):
                continue
            if isinstance(st, ast.If):
                t = self.ev(st.test, env)
                if not isinstance(t, bool):
                    raise AnalysisError("table accessor: non-boolean test")
                self.block(st.body if t else st.orelse, env)
            elif isinstance(st, ast.Raise):
                name = "Exception"
                if isinstance(st.exc, ast.Call):
                    name = ast.unparse(st.exc.func)
                elif st.exc is not None:
                    name = ast.unparse(st.exc)
                raise Raised(name)
            elif isinstance(st, ast.Assign) and len(st.targets) == 1 and isinstance(st.targets[0], ast.Name):
                env[st.targets[0].id] = self.ev(st.value, env)
            elif isinstance(st, ast.AugAssign) and isinstance(st.target, ast.Name):
                if st.target.id not in env:
                    raise AnalysisError("table accessor: augmented assignment to unknown name %s" % st.target.id)
                env[st.target.id] = self.binop(st.op, env[st.target.id], self.ev(st.value, env))
            elif isinstance(st, ast.Return):
                raise Ret(self.ev(st.value, env))
            elif isinstance(st, (ast.Import, ast.ImportFrom)):
                continue
            elif isinstance(st, ast.Try) and not st.finalbody:
                try:
                    self.block(st.body, env)
                except Raised as r:
                    for h in st.handlers:
                        names = [] if h.type is None else [ast.unparse(x).split(".")[-1] for x in (h.type.elts if isinstance(h.type, ast.Tuple) else [h.type])]
                        if h.type is None or r.exc.split(".")[-1] in names or "Exception" in names or (r.exc.endswith("IndexError") and "LookupError" in names):
                            self.block(h.body, env)
                            break
                    else:
                        raise
                else:
                    self.block(st.orelse, env)
            else:
                raise AnalysisError("table accessor: unsupported statement %s" % type(st).__name__)

    def ev(self, e, env):
        if isinstance(e, ast.Constant):
            if isinstance(e.value, float):
                return Decimal(repr(e.value))
            return e.value
        if isinstance(e, ast.Name):
            if e.id in env:
                return env[e.id]
            if e.id in self.g:
                return self.g[e.id]
            raise AnalysisError("table accessor: unknown name %s" % e.id)
        if isinstance(e, ast.Tuple):
            return tuple(self.ev(x, env) for x in e.elts)
        if isinstance(e, ast.List):
            return [self.ev(x, env) for x in e.elts]
        if isinstance(e, ast.BoolOp):
            vals = [self.ev(v, env) for v in e.values]
            return any(vals) if isinstance(e.op, ast.Or) else all(vals)
        if isinstance(e, ast.Compare) and len(e.ops) == 1:
            a, b = self.ev(e.left, env), self.ev(e.comparators[0], env)
            op = e.ops[0]
            return {ast.Lt: a < b, ast.Gt: a > b, ast.LtE: a <= b, ast.GtE: a >= b, ast.Eq: a == b, ast.NotEq: a != b}[type(op)]
        if isinstance(e, ast.UnaryOp) and isinstance(e.op, ast.USub):
            return -self.ev(e.operand, env)
        if isinstance(e, ast.BinOp):
            return self.binop(e.op, self.ev(e.left, env), self.ev(e.right, env))
        if isinstance(e, ast.Subscript):
            return self.subscript(self.ev(e.value, env), e.slice, env)
        if isinstance(e, ast.JoinedStr):
            return "fstring"
        if isinstance(e, ast.Call):
            return self.callexpr(e, env)
        raise AnalysisError("table accessor: unsupported expression %s" % ast.unparse(e))

    def binop(self, op, a, b):
        if isinstance(a, NDA) or isinstance(b, NDA):
            arr, sc, left = (a, b, True) if isinstance(a, NDA) else (b, a, False)
            if isinstance(sc, NDA):
                raise AnalysisError("table accessor: array-array arithmetic")
            sc = Decimal(sc) if not isinstance(sc, Decimal) else sc
            if isinstance(op, ast.Mult):
                return NDA(arr.shape, [x * sc for x in arr.v], [x * abs(sc) for x in arr.e])
            if isinstance(op, ast.Add):
                return NDA(arr.shape, [x + sc for x in arr.v], arr.e)
            if isinstance(op, ast.Sub):
                return NDA(arr.shape, [(x - sc) if left else (sc - x) for x in arr.v], arr.e)
            if isinstance(op, ast.Div) and left:
                return NDA(arr.shape, [x / sc for x in arr.v], [x / abs(sc) for x in arr.e])
            raise AnalysisError("table accessor: unsupported array op")
        if isinstance(op, ast.Add):
            return a + b
        if isinstance(op, ast.Sub):
            return a - b
        if isinstance(op, ast.Mult):
            return a * b
        if isinstance(op, ast.FloorDiv):
            return a // b
        if isinstance(op, ast.Pow):
            return a**b
        if isinstance(op, ast.Div):
            return Decimal(a) / Decimal(b)
        raise AnalysisError("table accessor: unsupported operator")

    def _ival(self, x):
        if isinstance(x, bool) or not isinstance(x, int):
            raise AnalysisError("table accessor: non-integer index")
        return x

    def subscript(self, base, sl, env):
        self.subscripts += 1
        if isinstance(base, (list, tuple)):
            i = self._ival(self.ev(sl, env))
            if not -len(base) <= i < len(base):
                raise Raised("IndexError")
            return base[i]
        if not isinstance(base, NDA):
            raise AnalysisError("table accessor: subscript of non-array")
        if isinstance(sl, ast.Slice):
            if len(base.shape) != 1 or sl.step is not None:
                raise AnalysisError("table accessor: unsupported slice")
            lo = self._ival(self.ev(sl.lower, env)) if sl.lower else 0
            hi = self._ival(self.ev(sl.upper, env)) if sl.upper else base.shape[0]
            if lo < 0 or hi < 0:
                # numpy would wrap negative bounds silently: model it faithfully
                lo = lo + base.shape[0] if lo < 0 else lo
                hi = hi + base.shape[0] if hi < 0 else hi
            lo, hi = max(0, min(lo, base.shape[0])), max(0, min(hi, base.shape[0]))
            return NDA((max(hi - lo, 0),), base.v[lo:hi], base.e[lo:hi])
        if isinstance(sl, ast.Tuple) and len(sl.elts) == 2 and len(base.shape) == 2:
            a, b = sl.elts
            if isinstance(b, ast.Slice) and b.lower is None and b.upper is None and not isinstance(a, ast.Slice):
                i = self._ival(self.ev(a, env))
                n, m = base.shape
                if not -n <= i < n:
                    raise Raised("IndexError")
                i %= n
                return NDA((m,), base.v[i * m : (i + 1) * m], base.e[i * m : (i + 1) * m])
            raise AnalysisError("table accessor: unsupported 2-D subscript")
        i = self._ival(self.ev(sl, env))
        if len(base.shape) != 1:
            raise AnalysisError("table accessor: unsupported subscript rank")
        if not -base.shape[0] <= i < base.shape[0]:
            raise Raised("IndexError")
        v = base.v[i]
        if base.e[i] == 0 and v == v.to_integral_value():
            return int(v)
        return v

    def callexpr(self, e, env):
        f = ast.unparse(e.func)
        if isinstance(e.func, ast.Attribute) and e.func.attr == "reshape":
            base = self.ev(e.func.value, env)
            shp = self.ev(e.args[0], env) if len(e.args) == 1 else tuple(self.ev(a, env) for a in e.args)
            order = "C"
            for kw in e.keywords:
                if kw.arg == "order":
                    order = self.ev(kw.value, env)
            if not isinstance(base, NDA) or len(base.shape) != 1 or len(shp) != 2:
                raise AnalysisError("table accessor: unsupported reshape")
            n, m = shp
            if n * m != base.shape[0]:
                raise Raised("ValueError")
            if order == "F":
                idx = [j * n + i for i in range(n) for j in range(m)]
            elif order == "C":
                idx = list(range(n * m))
            else:
                raise AnalysisError("table accessor: reshape order")
            return NDA((n, m), [base.v[k] for k in idx], [base.e[k] for k in idx])
        tail = f.split(".")[-1]
        if tail in ("asfortranarray", "ascontiguousarray", "asarray", "array") and len(e.args) == 1:
            return self.ev(e.args[0], env)
        if tail == "vstack" and len(e.args) == 1:
            rows = self.ev(e.args[0], env)
            if not all(isinstance(r, NDA) and len(r.shape) == 1 and r.shape == rows[0].shape for r in rows):
                raise AnalysisError("table accessor: unsupported vstack")
            return NDA((len(rows), rows[0].shape[0]), [x for r in rows for x in r.v], [x for r in rows for x in r.e])
        if tail == "len" and len(e.args) == 1:
            return len(self.ev(e.args[0], env))
        if isinstance(e.func, ast.Name) and not e.keywords and self.module.has_fn(e.func.id):
            # a helper of the same module (a conversion / normalisation step the accessor delegates to): executed too
            return self.call(e.func.id, [self.ev(a, env) for a in e.args])
        if tail in ("abs", "fabs", "absolute") and len(e.args) == 1:
            x = self.ev(e.args[0], env)
            if isinstance(x, NDA):
                return NDA(x.shape, [abs(v) for v in x.v], x.e)
            return abs(x)
        if tail == "sum" and len(e.args) == 1 and not e.keywords:
            x = self.ev(e.args[0], env)
            if isinstance(x, NDA):
                return sum(x.v, Decimal(0))
        if tail == "norm" and len(e.args) == 2 and not e.keywords:
            x, o = self.ev(e.args[0], env), self.ev(e.args[1], env)
            if isinstance(x, NDA) and len(x.shape) == 1 and o == 1:
                return sum((abs(v) for v in x.v), Decimal(0))
        raise AnalysisError("table accessor: unsupported call %s" % f)
