"""TAB: refinement patterns written as code, and everything that must agree with them.

The six barycentric sub-triangles and the four uniform-refinement children are *code-as-table*
(assignments ``new_elements[r, 6*index + j] = ...``).  This module extracts them as symbolic tables over the
reference points V0,V1,V2 (vertices), M0,M1,M2 (midpoint of local edge k, vertices from ``_EDGE_LOCAL``) and
C (barycentre), and derives in exact rationals what every dependent literal table must be.
"""

import ast
from fractions import Fraction as F

from .core import AnalysisError, TableWrong
from .src import unparse

GRID = "bempp_cl/api/grid/grid.py"


def frac(node):
    """Exact value of a literal numeric expression (ints, floats printed exactly, + - * /)."""
    if isinstance(node, ast.Constant) and isinstance(node.value, (int, float)) and not isinstance(node.value, bool):
        return F(repr(node.value)) if isinstance(node.value, float) else F(node.value)
    if isinstance(node, ast.UnaryOp) and isinstance(node.op, ast.USub):
        return -frac(node.operand)
    if isinstance(node, ast.UnaryOp) and isinstance(node.op, ast.UAdd):
        return frac(node.operand)
    if isinstance(node, ast.BinOp):
        a, b = frac(node.left), frac(node.right)
        if isinstance(node.op, ast.Add):
            return a + b
        if isinstance(node.op, ast.Sub):
            return a - b
        if isinstance(node.op, ast.Mult):
            return a * b
        if isinstance(node.op, ast.Div):
            return a / b
    raise AnalysisError("not a literal number: %s" % unparse(node))


def frac_table(node):
    """Nested list/tuple/np.array(...) literal -> nested python lists of Fractions."""
    if isinstance(node, ast.Call) and unparse(node.func).split(".")[-1] == "array" and node.args:
        return frac_table(node.args[0])
    if isinstance(node, ast.Attribute) and node.attr == "T":
        t = frac_table(node.value)
        return [list(r) for r in zip(*t)]
    if isinstance(node, (ast.List, ast.Tuple)):
        return [frac_table(e) for e in node.elts]
    return frac(node)


def linear(node, var):
    """(a, b) with node == a*var + b for integer literal a, b."""
    if isinstance(node, ast.Constant) and isinstance(node.value, int):
        return (0, node.value)
    if isinstance(node, ast.Name) and node.id == var:
        return (1, 0)
    if isinstance(node, ast.BinOp):
        l, r = linear(node.left, var), linear(node.right, var)
        if isinstance(node.op, ast.Add):
            return (l[0] + r[0], l[1] + r[1])
        if isinstance(node.op, ast.Sub):
            return (l[0] - r[0], l[1] - r[1])
        if isinstance(node.op, ast.Mult):
            if l[0] == 0:
                return (l[1] * r[0], l[1] * r[1])
            if r[0] == 0:
                return (r[1] * l[0], r[1] * l[1])
    raise AnalysisError("index expression is not linear in %s: %s" % (var, unparse(node)))


def edge_local(ctx):
    m = ctx.repo.mod(GRID)
    node = m.assigns.get("_EDGE_LOCAL")
    if node is None:
        raise AnalysisError("_EDGE_LOCAL vanished from grid.py")
    t = frac_table(node)
    out = [tuple(int(x) for x in row) for row in t]
    if len(out) != 3 or any(len(r) != 2 for r in out):
        raise AnalysisError("_EDGE_LOCAL is not a 3x2 table")
    if sorted(tuple(sorted(r)) for r in out) != [(0, 1), (0, 2), (1, 2)]:
        raise AnalysisError("_EDGE_LOCAL does not enumerate the three edges of a triangle")
    return out


def ref_points(ctx):
    """Reference coordinates of V0..V2, M0..M2, C."""
    el = edge_local(ctx)
    V = [(F(0), F(0)), (F(1), F(0)), (F(0), F(1))]
    pts = {"V0": V[0], "V1": V[1], "V2": V[2]}
    for k, (a, b) in enumerate(el):
        pts["M%d" % k] = ((V[a][0] + V[b][0]) / 2, (V[a][1] + V[b][1]) / 2)
    pts["C"] = (F(1, 3), F(1, 3))
    return pts


def barycentric_table(ctx):
    """B[j][r] in {V0,V1,V2,M0,M1,M2,C}, extracted from _create_barycentric_connectivity_array."""
    m = ctx.repo.mod(GRID)
    fn = m.fn("_create_barycentric_connectivity_array")
    params = [a.arg for a in fn.args.args]
    if len(params) != 5:
        raise AnalysisError("_create_barycentric_connectivity_array signature changed")
    p_vertices, p_elements, p_element_edges, p_edges = params[:4]
    loops = [s for s in fn.body if isinstance(s, ast.For)]
    if len(loops) != 1 or not isinstance(loops[0].target, ast.Name):
        raise AnalysisError("barycentric connectivity: expected one loop over elements")
    loop = loops[0]
    idx = loop.target.id
    rets = [s for s in fn.body if isinstance(s, ast.Return)]
    if len(rets) != 1 or not (isinstance(rets[0].value, ast.Tuple) and len(rets[0].value.elts) == 2 and all(isinstance(e, ast.Name) for e in rets[0].value.elts)):
        raise AnalysisError("barycentric connectivity: expected `return <vertices>, <elements>`")
    n_vertices, n_elements = (e.id for e in rets[0].value.elts)
    counters = {s.target.id for s in ast.walk(loop) if isinstance(s, ast.AugAssign) and isinstance(s.target, ast.Name) and isinstance(s.op, ast.Add) and isinstance(s.value, ast.Constant) and s.value.value == 1}
    if len(counters) != 1:
        raise AnalysisError("barycentric connectivity: no single running vertex counter in the element loop (%s)" % sorted(counters))
    counter = counters.pop()
    # meaning of local_vertex_ids[k] and midpoint_index, from the vertex creation statements
    mid_name = None
    lvi_name = None
    mid_ok = edge_ok = False
    for st in ast.walk(loop):
        if isinstance(st, ast.Assign) and isinstance(st.targets[0], ast.Subscript) and isinstance(st.value, ast.BinOp) and isinstance(st.value.op, ast.Mult):
            tgt = unparse(st.targets[0])
            if not tgt.startswith(n_vertices + "["):
                continue
            try:
                c = frac(st.value.left)
            except AnalysisError:
                continue
            arg = unparse(st.value.right).replace(" ", "")
            if c == F(1, 3) and arg == "_np.sum(%s[:,%s[:,%s]],axis=1)" % (p_vertices, p_elements, idx):
                mid_ok = True
            if c == F(1, 2) and arg.startswith("_np.sum(%s[:,%s[:," % (p_vertices, p_edges)) and arg.endswith("]],axis=1)"):
                edge_ok = True
    for st in ast.walk(loop):
        if isinstance(st, ast.For) and st is not loop and isinstance(st.target, ast.Name):
            k = st.target.id
            # edge_index = element_edges[local_index, index]; local_vertex_ids[local_index] = ...
            e_ok = any(isinstance(s, ast.Assign) and unparse(s.value).replace(" ", "") == "%s[%s,%s]" % (p_element_edges, k, idx) for s in ast.walk(st))
            for s in ast.walk(st):
                if isinstance(s, ast.Assign) and isinstance(s.targets[0], ast.Subscript) and isinstance(s.targets[0].slice, ast.Name) and s.targets[0].slice.id == k:
                    if isinstance(s.targets[0].value, ast.Name):
                        lvi_name = s.targets[0].value.id
            if not e_ok:
                lvi_name = None
    for st in ast.walk(loop):
        if isinstance(st, ast.Assign) and isinstance(st.targets[0], ast.Name) and isinstance(st.value, ast.Name) and st.value.id == counter:
            mid_name = st.targets[0].id
    # (what the two kinds of vertices *are* is decided by rule BARY-VERTICES; here only their names are needed)
    if not (lvi_name and mid_name):
        raise AnalysisError("barycentric connectivity: cannot establish the meaning of the midpoint / barycentre vertices")
    table = {}
    for st in ast.walk(loop):
        if not (isinstance(st, ast.Assign) and isinstance(st.targets[0], ast.Subscript)):
            continue
        t = st.targets[0]
        if not (isinstance(t.value, ast.Name) and t.value.id == n_elements and isinstance(t.slice, ast.Tuple) and len(t.slice.elts) == 2):
            continue
        r = t.slice.elts[0]
        if not (isinstance(r, ast.Constant) and r.value in (0, 1, 2)):
            raise AnalysisError("barycentric connectivity: non-literal row in %s" % unparse(t))
        a, j = linear(t.slice.elts[1], idx)
        if a == 6 and not 0 <= j < 6:
            # a column of another element's six sub-triangles (or a negative column) is written while element `index` is refined
            raise TableWrong(GRID, fn.name, st.lineno, "barycentric slot " + unparse(t.slice.elts[1]),
                             "`%s` writes column %s: the six sub-triangles of element `%s` are the columns 6*%s + 0..5" % (unparse(t)[:60], unparse(t.slice.elts[1]), idx, idx))
        if a != 6:
            raise AnalysisError("barycentric connectivity: sub-triangle slot %s is not 6*index + j" % unparse(t.slice.elts[1]))
        v = st.value
        if isinstance(v, ast.Name) and v.id == mid_name:
            sym = "C"
        elif isinstance(v, ast.Subscript) and isinstance(v.value, ast.Name) and v.value.id == lvi_name and isinstance(v.slice, ast.Constant):
            sym = "M%d" % v.slice.value
        elif (isinstance(v, ast.Subscript) and isinstance(v.value, ast.Name) and v.value.id == p_elements and isinstance(v.slice, ast.Tuple)
              and isinstance(v.slice.elts[0], ast.Constant) and isinstance(v.slice.elts[1], ast.Name) and v.slice.elts[1].id == idx):
            sym = "V%d" % v.slice.elts[0].value
        else:
            raise AnalysisError("barycentric connectivity: unrecognised vertex expression %s" % unparse(v))
        if (j, r.value) in table:
            raise TableWrong(GRID, fn.name, st.lineno, "barycentric slot (%d, %d)" % (j, r.value),
                             "corner %d of sub-triangle %d is assigned twice (lines %d and %d), so another of the 18 slots of the np.empty table is never written" % (r.value, j, table[(j, r.value)][1], st.lineno))
        table[(j, r.value)] = (sym, st.lineno)
    if len(table) != 18:
        raise TableWrong(GRID, fn.name, loop.lineno, "barycentric slots", "only %d of the 18 (sub-triangle, corner) slots of an element are assigned; missing: %s" % (
            len(table), sorted(set((j, r) for j in range(6) for r in range(3)) - set(table))[:6]))
    B = [[table[(j, r)][0] for r in range(3)] for j in range(6)]
    return B, fn.lineno


def refine_table(ctx):
    """Children of Grid.refine(): list of 4 triples over V*/M*."""
    m = ctx.repo.mod(GRID)
    fn = m.fn("Grid.refine")
    from . import roles

    defs = roles.Defs(fn)
    rets = [s for s in fn.body if isinstance(s, ast.Return)]
    if not (len(rets) == 1 and isinstance(rets[0].value, ast.Call) and unparse(rets[0].value.func) == "Grid" and len(rets[0].value.args) >= 2
            and all(isinstance(a, ast.Name) for a in rets[0].value.args[:2])):
        raise AnalysisError("Grid.refine: does not return Grid(<vertices>, <elements>, <domain indices>) built from locals")
    V, E = (a.id for a in rets[0].value.args[:2])
    DOM = rets[0].value.args[2] if len(rets[0].value.args) >= 3 else next((k.value for k in rets[0].value.keywords if k.arg == "domain_indices"), None)
    loops = [s for s in fn.body if isinstance(s, ast.For) and isinstance(s.target, ast.Tuple) and len(s.target.elts) == 2
             and roles.canon(s.iter, defs).replace(" ", "") == "enumerate(self.elements.T)"]
    if len(loops) != 1:
        raise AnalysisError("Grid.refine: expected one loop over enumerate(self.elements.T)")
    loop = loops[0]
    idx, elem = loop.target.elts[0].id, loop.target.elts[1].id
    S = roles.stores(fn.body, defs)
    children = {}
    for s in S:
        if not (isinstance(s.tnode, ast.Subscript) and unparse(s.tnode.value) == E):
            continue
        ln = s.node.lineno
        slot = [c for c in range(4) if s.target in (roles.expect("E[:, 4*I + %d]" % c, defs, ln, E=E, I=idx),) + ((roles.expect("E[:, 4*I]", defs, ln, E=E, I=idx),) if c == 0 else ())]
        if len(slot) != 1 or s.guards or s.loops != (loop,) or not isinstance(s.vnode, (ast.List, ast.Tuple)) or len(s.vnode.elts) != 3:
            raise AnalysisError("Grid.refine: store `%s` is not a child triple at column 4*index + c" % unparse(s.node)[:80])
        names = {}
        for k in range(3):
            names[roles.expect("X[%d]" % k, defs, ln, X=elem)] = "V%d" % k
            names[roles.expect("self.element_edges[%d, I] + self.number_of_vertices" % k, defs, ln, I=idx)] = "M%d" % k
        tri = []
        for e in s.vnode.elts:
            ce = roles.canon(e, defs, lv=True).replace(" ", "")
            if ce not in names:
                raise AnalysisError("Grid.refine: child vertex `%s` is neither a parent vertex nor an edge-midpoint vertex" % unparse(e))
            tri.append(names[ce])
        if slot[0] in children:
            raise TableWrong(GRID, "Grid.refine", ln, "refine child %d" % slot[0], "child %d of an element is stored twice: another of its four children is never written" % slot[0])
        children[slot[0]] = tri
    if sorted(children) != [0, 1, 2, 3]:
        raise TableWrong(GRID, "Grid.refine", loop.lineno, "refine children", "only the children %s of the four children 4*index + 0..3 are stored" % sorted(children))
    ln = rets[0].lineno
    vs = {(s.target, s.value) for s in S if isinstance(s.tnode, ast.Subscript) and unparse(s.tnode.value) == V and not s.guards and not s.loops}
    old = (roles.expect("V[:, :self.number_of_vertices]", defs, ln, V=V), roles.expect("self.vertices", defs, ln))
    a, b = "self.vertices[:, self.edges[0, :]]", "self.vertices[:, self.edges[1, :]]"
    mids = {(roles.expect("V[:, self.number_of_vertices:]", defs, ln, V=V), roles.expect(f, defs, ln)) for f in ("0.5 * (%s + %s)" % (a, b), "(%s + %s) / 2" % (a, b), "0.5 * %s + 0.5 * %s" % (a, b))}
    mids_ok = old in vs and len(vs & mids) == 1 and len(vs) == 2
    # (no domain indices handed to the constructor: it fills in zeros)
    dom_ok = DOM is not None and not (isinstance(DOM, ast.Constant) and DOM.value is None) and per_child_sequence(roles.inline(DOM, defs), "self.domain_indices", 4, "Grid.refine")
    return [children[c] for c in range(4)], mids_ok, dom_ok, fn.lineno


def per_child_sequence(node, source, k, what):
    """Is the expression, evaluated on the parents' per-element sequence `source` = (d0, d1, d2), the sequence that gives
    child k*e + j the entry of parent e: (d0,)*k + (d1,)*k + (d2,)*k?  Evaluated on a three-element symbolic sequence:
    np.repeat / .repeat / np.tile / concatenate / hstack / list arithmetic / an integer-division gather; anything else is
    outside what this evaluation reads (AnalysisError)."""
    base = ["d0", "d1", "d2"]

    def num(n):
        if isinstance(n, ast.Constant) and isinstance(n.value, int):
            return n.value
        raise AnalysisError("%s: per-child sequence: count `%s` is not a literal" % (what, unparse(n)[:40]))

    def ev(n):
        txt = unparse(n).replace(" ", "")
        if txt == source:
            return list(base)
        if isinstance(n, ast.Call):
            f = unparse(n.func).split(".")[-1]
            recv = n.func.value if isinstance(n.func, ast.Attribute) and not (isinstance(n.func.value, ast.Name) and n.func.value.id in ("_np", "np", "numpy")) else None
            args = ([recv] if recv is not None else []) + list(n.args)
            kw = {q.arg: q.value for q in n.keywords}
            if f == "repeat" and len(args) + ("repeats" in kw) == 2 and set(kw) <= {"repeats", "axis"}:
                reps = num(args[1] if len(args) == 2 else kw["repeats"])
                return [x for x in ev(args[0]) for _ in range(reps)]
            if f == "tile" and len(args) + ("reps" in kw) == 2:
                return ev(args[0]) * num(args[1] if len(args) == 2 else kw["reps"])
            if f in ("concatenate", "hstack") and len(args) == 1 and isinstance(args[0], (ast.List, ast.Tuple)):
                return [x for part in args[0].elts for x in ev(part)]
            if f in ("array", "asarray", "copy", "astype", "ravel", "flatten") and args:
                return ev(args[0])
        if isinstance(n, ast.BinOp) and isinstance(n.op, ast.Mult) and isinstance(n.left, (ast.List, ast.Call)) and isinstance(n.right, ast.Constant):
            v = ev(n.left.args[0]) if isinstance(n.left, ast.Call) and unparse(n.left.func) == "list" else None
            if v is not None:
                return v * num(n.right)
        if isinstance(n, ast.Subscript) and unparse(n.value).replace(" ", "") == source:
            i = unparse(n.slice).replace(" ", "")
            for pat, f in (("arange(%d*N)//%d" % (k, k), lambda j: j // k), ("arange(%d*N)%%N" % k, lambda j: j % 3)):
                for nname in ("self.number_of_elements", "len(%s)" % source, "%s.shape[0]" % source, "%s.size" % source):
                    for pre in ("_np.", "np."):
                        if i in (pre + pat.replace("N", nname), pre + pat.replace("%d*N" % k, "N*%d" % k).replace("N", nname)):
                            return [base[f(j)] for j in range(3 * k)]
        raise AnalysisError("%s: per-child sequence `%s` is outside what the evaluation reads" % (what, unparse(n)[:70]))

    return ev(node) == [x for x in base for _ in range(k)]


def area2(tri, pts):
    (x0, y0), (x1, y1), (x2, y2) = (pts[s] for s in tri)
    return (x1 - x0) * (y2 - y0) - (x2 - x0) * (y1 - y0)


def phi(k, p):
    """Reference P1 nodal function k at reference point p."""
    return [1 - p[0] - p[1], p[0], p[1]][k]
