"""Sparse (local) operators: core/sparse_assembler.py, the four sparse kernels and the basis evaluators."""

import ast

from . import assemblers as A
from . import kernels as K
from . import roles, symex
from .alg import V
from .core import AnalysisError
from .src import arg_names, calls_in, unparse
from .symex import Arr, Interp, Opq, opaque_atom, tov

SPA = "bempp_cl/core/sparse_assembler.py"
NK = K.NK


def _basis(name, shapeset, mult, nmult, E, idx):
    desc = "B(%s)[%s|quad_points|grid_data|%s|%s]" % (name, shapeset, mult, nmult)
    return opaque_atom(desc, [E] + idx)


def kernels(ctx):
    """The four element kernels accumulate sum_q (basis products) * w_q * J into slot nt*nr*E# + i*nr + j."""
    from . import extents, selectk

    if "IDX-EXTENT" not in getattr(ctx, "_extent_done", set()):
        ctx._extent_done = {"IDX-EXTENT"}
        extents.index_extents(ctx)
        selectk.select_modes(ctx)
    selectk.sparse_forward(ctx)
    reg = K.registries(ctx)["kernel_functions_sparse"]
    r = ctx.rule("SPARSE-KERNELS", "sparse element kernels: result[nshape*k + i*ntrial + j] += sum over components and points of test basis * trial basis * weight * integration element", 4)
    nt, nr = opaque_atom("#nshape_test"), opaque_atom("#nshape_trial")
    for kt, fname in sorted(reg.items()):
        it, hooks, _ = A.run_assembler(ctx, fname, "sparse_kernel", [])
        ws = A.final_writes(it, "result")
        fn = it.fn
        if not ws:
            r.fail(fname, NK, fname, fn.lineno, "no write in " + fname, "kernel writes nothing to result")
            continue
        idx = ws[-1][2]
        total = it.read(ws[-1][0], list(idx), fn)
        ev = it.env[arg_names(fn)[A.SPARSE_KERNEL_SIG.index("element_index")]]
        E = opaque_atom("elements", [ev])
        loops = ws[-1][4]
        cands = [l for l in loops]
        i = j = None
        for a in cands:
            for b in cands:
                if a is not b and a.bound.eq(nt) and b.bound.eq(nr) and idx[0].eq(nt * nr * ev + V.atom(a.var) * nr + V.atom(b.var)):
                    i, j = V.atom(a.var), V.atom(b.var)
        if i is None:
            r.fail(fname, NK, fname, fn.lineno, "slot layout of " + fname, "result slot is %s, expected nshape_test*nshape_trial*element_index + i*nshape_trial + j" % symex.idx_str(idx[0]))
            continue
        init = opaque_atom("result", [idx[0]])
        total = total.subs({A._single_atom(init): V.const(0)})
        # quadrature induction variables: whatever indexes quad_weights (literal-unrolled outer loops create one per copy)
        qvars = []
        for a in total.atoms():
            if a in symex.ATOMS and symex.ATOMS[a][0] == "quad_weights":
                nm = A._single_atom(symex.ATOMS[a][1][0])
                if nm is not None and nm not in qvars:
                    qvars.append(nm)
        if not qvars:
            r.fail(fname, NK, fname, fn.lineno, "quadrature reduction of " + fname, "no quadrature weight enters the accumulated value")
            continue
        q0 = qvars[0]
        ren = {v: V.atom(q0) for v in qvars[1:]}
        total = symex.subst_index(total, ren)
        total = total.subs({"Σ⟨%s⟩" % v: V.atom("Σ⟨%s⟩" % q0) for v in qvars[1:]})
        sig, _ = A.markers(total)
        if "Σ⟨%s⟩" % q0 not in sig:
            r.fail(fname, NK, fname, fn.lineno, "quadrature reduction of " + fname, "the quadrature index is not summed over")
            continue
        val = total.subs({s: V.const(1) for s in sig})
        lin_ok = all(total.subs({s: V.const(0)}).iszero() for s in sig)
        q = V.atom(q0)
        others = [V.atom(A.sigma_var(s)) for s in sig if A.sigma_var(s) != q0]
        J = opaque_atom("grid_data.integration_elements", [E])
        w = opaque_atom("quad_weights", [q])
        TB = lambda ix: _basis("test_basis", "test_shapeset", "test_multipliers", "test_normal_multipliers", E, ix)
        RB = lambda ix: _basis("trial_basis", "trial_shapeset", "trial_multipliers", "trial_normal_multipliers", E, ix)
        ok = False
        if kt == "l2_identity" and len(others) == 1:
            d = others[0]
            ok = val.eq(TB([d, i, q]) * RB([d, j, q]) * w * J)
        elif kt == "laplace_beltrami" and len(others) == 1:
            d = others[0]
            from .alg import vsum
            ok = val.eq(vsum(TB([d, V.const(g), i, q]) * RB([d, V.const(g), j, q]) for g in range(3)) * w * J)
        elif kt == "_vector_grad_product" and not others:
            from .alg import vsum
            ok = val.eq(vsum(TB([V.const(g), i, q]) * RB([V.const(0), V.const(g), j, q]) for g in range(3)) * w * J)
        elif kt == "_curl_curl_product" and not others:
            ok = val.eq(TB([i]) * RB([j]) * w * J)
        # every summation variable runs over the extent of the axis of the basis-value array it indexes
        rng_ok, rng_msg = True, ""
        for s in sig:
            v = A.sigma_var(s)
            rg = repr(symex.RANGES.get(v))
            axes = set()
            for a in val.atoms():
                if a in symex.ATOMS and symex.ATOMS[a][0].startswith("B("):
                    for pos, ix in enumerate(symex.ATOMS[a][1][1:]):
                        if A._single_atom(ix) == v:
                            axes.add(pos)
            allowed = {"[shape(B(%s),%d)]" % (side, ax) for side in ("test_basis", "trial_basis") for ax in axes}
            if rg == "[#quad]" and v == q0:
                continue  # the number of quadrature points taken from the weights
            if axes and rg not in allowed:
                rng_ok, rng_msg = False, "; the sum over `%s` runs over %s although it indexes axis %s of the basis values" % (v, rg, sorted(axes))
        r.check(ok and lin_ok and rng_ok, "%s (%s)" % (fname, kt), NK, fname, fn.lineno, "sparse kernel integrand " + kt, "accumulated value differs from sum_q <test basis, trial basis> w_q J for kernel type %s%s" % (kt, rng_msg))


def evaluators(ctx):
    """Each basis evaluator applies the local multiplier exactly once (and the normal multiplier where the basis needs a normal)."""
    r = ctx.rule("BASIS-MULT-ONCE", "basis evaluators multiply the reference values by local_multipliers[element, i] exactly once", 3)
    res = {}
    for rel, fname, nd in (("bempp_cl/api/space/space.py", "_numba_evaluate", 3), ("bempp_cl/api/space/maxwell_spaces.py", "_numba_rwg0_evaluate", 3), ("bempp_cl/api/space/maxwell_spaces.py", "_numba_snc0_evaluate", 3)):
        m = ctx.repo.mod(rel)
        fn = m.fn(fname)
        p = arg_names(fn)
        if len(p) != 6:
            raise AnalysisError("%s: evaluator signature changed" % fname)
        symex.reset()
        hooks = A.Hooks(ctx, "geom").as_dict()
        N = opaque_atom("#pts")
        pts = Arr("P", "input", ndim=2, shape=[2, N])
        lm = Arr("lm", "input", ndim=2, shape=[opaque_atom("#g"), 3])
        nm = Arr("nm", "input", ndim=1, shape=[opaque_atom("#g")])
        e = opaque_atom("e")
        shp = Opq("shapeset", "shapeset")
        it = Interp(m, fn, {p[0]: e, p[1]: shp, p[2]: pts, p[3]: A.Grid("G"), p[4]: lm, p[5]: nm}, hooks)
        # in-place scaling of the reference values: model shapeset values as a local copy
        out = it.run()
        q = symex.fresh("q")
        symex.RANGES[q] = N
        vals = {}
        nfun = 3
        dim = 3 if "rwg" in fname or "snc" in fname else 1
        degs = []
        for f in range(nfun):
            for d in range(dim):
                try:
                    v = tov(it.index(out, [d, f, V.atom(q)], fn))
                except AnalysisError:
                    raise
                vals[(d, f)] = v
                mf = A._single_atom(opaque_atom("lm", [e, f]))
                # degree in the own multiplier: v linear in lm[e, f], no other multiplier
                lin = v.diff(mf)
                deg_ok = lin.diff(mf).iszero() and v.subs({mf: V.const(0)}).iszero()
                others = [a for a in v.atoms() if a.startswith("lm⟨") and a != mf]
                degs.append(deg_ok and not others)
        ok = all(degs)
        r.check(ok, "%s::%s" % (rel.split("/")[-1], fname), rel, fname, fn.lineno, "multiplier degree in " + fname,
                "evaluator output is not linear-homogeneous in local_multipliers[element, i] (multiplier missing or applied more than once)")
        res[fname] = vals
    return res


def assembler(ctx):
    m = ctx.repo.mod(SPA)
    fa = m.fn("assemble_sparse")
    pa = arg_names(fa)
    D, DT = pa[0], pa[1]
    defs = roles.Defs(fa)
    r = ctx.rule("SPARSE-ROLES", "assemble_sparse: common support, launch arguments by role (TEST = dual_to_range, TRIAL = domain), evaluator pairs per operator identifier", 1)
    calls = [c for c in calls_in(fa) if isinstance(c.func, ast.Name) and c.func.id == pa[4] and len(c.args) == len(A.SPARSE_SIG)]
    if len(calls) != 1:
        raise AnalysisError("assemble_sparse: 16-ary launch not found")
    call = calls[0]
    got = [roles.canon(a, defs).replace(" ", "") for a in call.args]
    sup = "nz((%s))" % "*".join(sorted(["%s.support" % D, "%s.support" % DT]))
    exp = {
        0: "%s.grid.data(*)" % D, 1: "%s.number_of_shape_functions" % DT, 2: "%s.number_of_shape_functions" % D, 3: sup,
        4: "regular_rule(%s.quadrature.regular)[0]" % pa[2], 5: "regular_rule(%s.quadrature.regular)[1]" % pa[2],
        6: "%s.normal_multipliers" % DT, 7: "%s.normal_multipliers" % D, 8: "%s.local_multipliers" % DT, 9: "%s.local_multipliers" % D,
        14: pa[5],
    }
    for k, pat in exp.items():
        r.check(roles.match(pat, got[k]), "launch/%s" % A.SPARSE_SIG[k], SPA, fa.name, call.lineno, "sparse launch arg %s = %s" % (A.SPARSE_SIG[k], got[k]),
                "slot %d (%s) receives `%s`, expected `%s`" % (k, A.SPARSE_SIG[k], got[k], pat))
    # result buffer: zeros of size nt*nr*len(elements)
    res_def = roles.canon(call.args[15], defs).replace(" ", "")
    r.check(res_def.startswith("_np.zeros(") and "%s.number_of_shape_functions" % D in res_def and "%s.number_of_shape_functions" % DT in res_def and "len(%s)" % sup in res_def,
            "launch/result", SPA, fa.name, call.lineno, "sparse result buffer " + res_def[:80], "result buffer is `%s`, expected zeros(nshape_test*nshape_trial*len(elements))" % res_def[:160])
    # branch table of evaluator pairs
    want = {
        "laplace_beltrami": ("shapeset.gradient", "shapeset.gradient", "numba_surface_gradient", "numba_surface_gradient"),
        "_vector_grad_product": ("shapeset.evaluate", "shapeset.gradient", "numba_evaluate", "numba_surface_gradient"),
        "_curl_curl_product": ("shapeset.gradient", "shapeset.gradient", "numba_surface_curl", "numba_surface_curl"),
        None: ("shapeset.evaluate", "shapeset.evaluate", "numba_evaluate", "numba_evaluate"),
    }
    names = [unparse(call.args[k]) for k in (10, 11, 12, 13)]
    top = [s for s in fa.body if isinstance(s, ast.If) and "identifier" in unparse(s.test)]
    if len(top) != 1:
        raise AnalysisError("assemble_sparse: identifier dispatch not found")
    # the dispatch is executed for each operator identifier (abstract execution: operators and literal order do not matter)
    from . import dispatch

    idkey = sorted({unparse(n) for n in ast.walk(top[0].test) if isinstance(n, ast.Attribute) and n.attr == "identifier"})
    if len(idkey) != 1:
        raise AnalysisError("assemble_sparse: the evaluator dispatch does not test one identifier attribute")
    branches = {}
    for key in want:
        effs = dispatch.effects([top[0]], {idkey[0]: key if key is not None else "l2_identity"}, "assemble_sparse")
        branches[key] = {e[1]: e[2] for e in effs if e[0] == "set"}
    for key, (a, b, c, d) in want.items():
        br = branches.get(key)
        exp4 = ["%s.%s" % (DT, a), "%s.%s" % (D, b), "%s.%s" % (DT, c), "%s.%s" % (D, d)]
        got4 = [br.get(n) for n in names] if br else None
        r.check(got4 == exp4, "evaluators for %s" % (key or "default (identity)"), SPA, fa.name, top[0].lineno, "sparse evaluators for %s: %s" % (key, got4),
                "operator %r launches with (test shapeset, trial shapeset, test evaluator, trial evaluator) = %s, expected %s" % (key, got4, exp4))
    # layout of i_ind / j_ind
    r2 = ctx.rule("SPARSE-LAYOUT", "i_ind[slot] = ntest*element + i, j_ind[slot] = ntrial*element + j for slot = ntest*ntrial*k + i*ntrial + j", 2)
    symex.reset()
    NT, NR, NE = opaque_atom("#nshape_test"), opaque_atom("#nshape_trial"), opaque_atom("#elements")
    els = Arr("elements", "input", ndim=1, shape=[NE])
    # the locals by role: launch slots 1, 2, 3 are (test count, trial count, element list); the function returns (rows, cols, values)
    if len(call.args) < 4 or not all(isinstance(a, ast.Name) for a in call.args[1:4]):
        raise AnalysisError("assemble_sparse: the kernel launch does not receive the shape function counts and the element list as local names")
    nT, nR, nE = (a.id for a in call.args[1:4])
    rets = [s for s in fa.body if isinstance(s, ast.Return)]
    if len(rets) != 1 or not (isinstance(rets[0].value, ast.Tuple) and len(rets[0].value.elts) == 3):
        raise AnalysisError("assemble_sparse: `return <rows>, <cols>, <values>` not found")
    I_, J_, RES_ = rets[0].value.elts
    it = Interp(m, fa, {nE: els, nT: NT, nR: NR}, {"globals": {"_np": Opq("_np", "module")}})
    # verify the provenance of the two names first
    okn = roles.canon(ast.Name(id=nT, ctx=ast.Load(), lineno=call.lineno), defs) == "%s.number_of_shape_functions" % DT and \
        roles.canon(ast.Name(id=nR, ctx=ast.Load(), lineno=call.lineno), defs) == "%s.number_of_shape_functions" % D and unparse(RES_) == unparse(call.args[-1])
    simple = {st.targets[0].id: st for st in fa.body if isinstance(st, ast.Assign) and len(st.targets) == 1 and isinstance(st.targets[0], ast.Name)}
    wanted, todo = set(), [n.id for e in (I_, J_) for n in ast.walk(e) if isinstance(n, ast.Name)]
    while todo:
        nm = todo.pop()
        if nm in wanted or nm in (nT, nR, nE) or nm not in simple:
            continue
        wanted.add(nm)
        todo.extend(n.id for n in ast.walk(simple[nm].value) if isinstance(n, ast.Name))
    for st in fa.body:
        if isinstance(st, ast.Assign) and isinstance(st.targets[0], ast.Name) and st.targets[0].id in wanted:
            it.stmt(st)
    k, i, j = symex.fresh("k"), symex.fresh("i"), symex.fresh("j")
    symex.RANGES[k], symex.RANGES[i], symex.RANGES[j] = NE, NT, NR
    slot = NT * NR * V.atom(k) + V.atom(i) * NR + V.atom(j)
    gi = tov(it.index(it.ev(I_), [slot], fa))
    gj = tov(it.index(it.ev(J_), [slot], fa))
    r2.check(okn and gi.eq(NT * opaque_atom("elements", [V.atom(k)]) + V.atom(i)), "i_ind", SPA, fa.name, fa.lineno, "sparse i_ind[slot] = %r" % gi, "row index of slot (k,i,j) is %r" % gi)
    r2.check(okn and gj.eq(NR * opaque_atom("elements", [V.atom(k)]) + V.atom(j)), "j_ind", SPA, fa.name, fa.lineno, "sparse j_ind[slot] = %r" % gj, "column index of slot (k,i,j) is %r" % gj)
    # scatter in SparseAssembler.assemble
    fs = m.fn("SparseAssembler.assemble")
    ds = roles.Defs(fs)
    r3 = ctx.rule("SPARSE-SCATTER", "SparseAssembler.assemble: rows through TEST local2global, cols through TRIAL local2global, one multiplier each; domain dof_transformation on the right, dual one transposed on the left", 5)
    Dc, DTc = "return_compatible_representation(self.domain,self.dual_to_range)[0]", "return_compatible_representation(self.domain,self.dual_to_range)[1]"
    callc = "assemble_sparse(%s.localised_space,%s.localised_space,self.parameters,operator_descriptor,select_numba_kernels(operator_descriptor,mode='sparse')[0],select_numba_kernels(operator_descriptor,mode='sparse')[1])" % (Dc, DTc)
    sink = [c for c in calls_in(fs) if unparse(c.func).endswith("coo_matrix")]
    if len(sink) != 1:
        raise AnalysisError("SparseAssembler.assemble: coo_matrix call not found")
    tup = sink[0].args[0]
    vals, (rows, cols) = tup.elts[0], tup.elts[1].elts
    g = [roles.canon(x, ds).replace(" ", "") for x in (rows, cols, vals)]
    r3.check(g[0] == "%s.local2global.ravel()[%s[0]]" % (DTc, callc), "rows", SPA, fs.name, sink[0].lineno, "sparse rows = " + g[0][:90], "rows are `%s`" % g[0][:200])
    r3.check(g[1] == "%s.local2global.ravel()[%s[1]]" % (Dc, callc), "cols", SPA, fs.name, sink[0].lineno, "sparse cols = " + g[1][:90], "cols are `%s`" % g[1][:200])
    ev = "(" + "*".join(sorted(["%s[2]" % callc, "%s.local_multipliers.ravel()[%s[1]]" % (Dc, callc), "%s.local_multipliers.ravel()[%s[0]]" % (DTc, callc)])) + ")"
    r3.check(g[2] == ev, "values", SPA, fs.name, sink[0].lineno, "sparse values = " + g[2][:90], "values are `%s`" % g[2][:300])
    rets = [s for s in ast.walk(fs) if isinstance(s, ast.Return) and s.value is not None]
    names = [n.id for n in ast.walk(rets[-1].value) if isinstance(n, ast.Name)] if rets else []
    M = next((n for n in names if any(isinstance(s, ast.Assign) and unparse(s.targets[0]) == n for s in ast.walk(fs))), None)
    if M is None:
        raise AnalysisError("SparseAssembler.assemble: returned matrix variable not found")
    St = [s for s in roles.stores(fs.body, ds, keep={M}, lv=False) if s.op == "=" and isinstance(s.tnode, ast.Name) and s.tnode.id == M and s.guards]
    got = {(s.guards, s.value) for s in St}
    want_d = (((Dc + ".requires_dof_transformation", True),), "(%s@%s.dof_transformation)" % (M, Dc))
    want_t = (((DTc + ".requires_dof_transformation", True),), "(%s.dof_transformation.T@%s)" % (DTc, M))
    r3.check(want_d in got, "domain transformation", SPA, fs.name, fs.lineno, "sparse domain dof_transformation",
             "the domain dof transformation is not applied on the right when the domain space requires it (guarded updates: %s)" % sorted(v for _, v in got))
    r3.check(want_t in got, "dual transformation", SPA, fs.name, fs.lineno, "sparse dual dof_transformation",
             "the dual_to_range dof transformation is not applied transposed on the left when the dual space requires it (guarded updates: %s)" % sorted(v for _, v in got))
    r3.check(len(got) == 2, "no other guarded update", SPA, fs.name, fs.lineno, "sparse matrix updates", "unexpected conditional updates of the assembled matrix: %s" % sorted(v for _, v in got))


# ---------------------------------------------------------------- mass matrices and their (pseudo-)inverses


def mass_matrices(ctx):
    """get_mass_matrix / get_inverse_mass_matrix / FunctionSpace.mass_matrix / inverse_mass_matrix and the sparse
    (pseudo-)inverse they rely on."""
    from . import dispatch
    from .proto import NC

    HP = "bempp_cl/api/utils/helpers.py"
    SPC = "bempp_cl/api/space/space.py"
    DO = "bempp_cl/api/assembly/discrete_boundary_operator.py"
    r = ctx.rule("MASS-MATRIX", "mass matrix of (domain, dual) = weak form of identity(domain, ., dual); the inverse mass matrix is the sparse inverse of exactly that matrix; equal spaces use the space's own memo", 4)
    hm = ctx.repo.mod(HP)
    for fname, same_want, diff_want in (
        ("get_mass_matrix", "{D}.mass_matrix()", "identity({D}, *, {T}).weak_form()"),
        ("get_inverse_mass_matrix", "{D}.inverse_mass_matrix()", "InverseSparseDiscreteBoundaryOperator(get_mass_matrix({D}, {T}))"),
    ):
        fn = hm.fn(fname)
        defs = roles.Defs(fn)
        D, T = arg_names(fn)[:2]
        rets = [s for s in roles.stores(fn.body, defs, lv=False) if s.op == "return"]
        eq = {"(%s Eq %s)" % tuple(sorted([D, T])), "(%sEq%s)" % tuple(sorted([D, T]))}
        got = {}
        for s in rets:
            if len(s.guards) == 1 and s.guards[0][0].replace(" ", "") in {e.replace(" ", "") for e in eq}:
                got[s.guards[0][1]] = s.value
            elif not s.guards:
                got.setdefault(False, s.value)
        ws = same_want.format(D=D, T=T).replace(" ", "")
        wd = diff_want.format(D=D, T=T).replace(" ", "")
        ok = got.get(True) == ws and got.get(False) is not None and roles.match(wd, got[False])
        r.check(ok, fname, HP, fname, fn.lineno, "%s paths %s" % (fname, got), "equal spaces -> `%s` (expected %s); different spaces -> `%s` (expected %s)" % (got.get(True), ws, got.get(False), wd))
    sm = ctx.repo.mod(SPC)
    from . import fx

    for meth, slot, init in (("mass_matrix", "self._mass_matrix", "identity(self,self,self).weak_form()"), ("inverse_mass_matrix", "self._inverse_mass_matrix", "InverseSparseDiscreteBoundaryOperator(self.mass_matrix())")):
        fn = sm.fn("FunctionSpace." + meth)
        why = fx._memo_shape(fn, slot, init)
        r.check(why is None, "FunctionSpace." + meth, SPC, "FunctionSpace." + meth, fn.lineno, "space %s memo" % meth, "%s: %s" % (meth, why))
    # the sparse pseudo-inverse
    r2 = ctx.rule("PSEUDO-INVERSE", "_Solver: square -> A^-1 x; thin -> (A^H A)^-1 A^H x; thick -> A^H (A A^H)^-1 x; real operator on complex data by parts; shape is the transposed shape", 5)
    dm = ctx.repo.mod(DO)
    init = dm.fn("_Solver.__init__")
    d = roles.Defs(init)
    S = roles.stores(init.body, d, lv=False)
    MAT = None
    for s in S:
        if s.op == "=" and isinstance(s.tnode, ast.Name) and s.value.endswith(".to_sparse()") and s.guards and "isinstance" in s.guards[-1][0]:
            MAT = s.tnode.id
    if MAT is None:
        raise AnalysisError("_Solver.__init__: the sparse matrix variable was not found")
    A_, AH, x = NC.op("A"), NC.op("AH"), NC.op("x")
    branches = {}
    for s in S:
        if s.target == "self._solve_fun" and s.guards and isinstance(s.vnode, (ast.Lambda, ast.Attribute)):
            branches[s.guards] = s
    # which store serves which shape: the selecting statement is executed for a square, a thin and a thick matrix
    from . import dispatch

    sel = [st for st in init.body if isinstance(st, ast.If) and any(s.node in list(ast.walk(st)) for s in branches.values())]
    found = {}
    for key, (m_, n_) in (("square", (3, 3)), ("thin", (4, 2)), ("thick", (2, 4))):
        for flag in (False, True):
            effs = dispatch.effects(sel, {"%s.shape[0]" % MAT: m_, "%s.shape[1]" % MAT: n_, "%s.shape" % MAT: (m_, n_), "use_mkl_pardiso": flag}, "_Solver.__init__")
            vals = [e[2] for e in effs if e[0] == "store" and e[1] == "self._solve_fun"]
            cands = [s for s in branches.values() if vals and unparse(s.vnode) == vals[-1]]
            if len(cands) == 1 and found.get(key, cands[0]) is cands[0]:
                found[key] = cands[0]
            else:
                found.pop(key, None)
                break
    def solver_of(name, line):
        """NC letter of the factorised matrix behind `name`: Inv[<canonical product>]."""
        cands = [s for s in S if s.op == "=" and isinstance(s.tnode, ast.Name) and s.tnode.id == name and isinstance(s.vnode, ast.Call) and unparse(s.vnode.func) == "solver_interface"]
        out = []
        for c in cands:
            arg = c.vnode.args[0]
            # strip .tocsr()/.tocsc()
            while isinstance(arg, ast.Call) and isinstance(arg.func, ast.Attribute) and arg.func.attr in ("tocsr", "tocsc") and not arg.args:
                arg = arg.func.value
            out.append((c.guards[:-1] if len(c.guards) > 1 and "use_mkl_pardiso" in c.guards[-1][0] else c.guards, _nc_mat(arg, d, MAT, A_, AH)))
        return out

    want = {"square": lambda inv: inv == A_, "thin": lambda inv: inv == AH * A_, "thick": lambda inv: inv == A_ * AH}
    for key in ("square", "thin", "thick"):
        s = found.get(key)
        ok, why = False, "branch not found"
        if s is not None:
            if key == "square":
                ok = isinstance(s.vnode, ast.Attribute) and s.vnode.attr == "solve" and isinstance(s.vnode.value, ast.Name) and all(want[key](m_) for g_, m_ in solver_of(s.vnode.value.id, s.node.lineno) if g_ == s.guards) \
                    and bool([1 for g_, m_ in solver_of(s.vnode.value.id, s.node.lineno) if g_ == s.guards])
                why = "square case does not return the solve method of the factorised matrix itself"
            else:
                lam = s.vnode
                body = lam.body if isinstance(lam, ast.Lambda) else None
                arg = lam.args.args[0].arg if body is not None else None
                shape_ok = False
                if key == "thin" and isinstance(body, ast.Call) and isinstance(body.func, ast.Attribute) and body.func.attr == "solve" and isinstance(body.func.value, ast.Name):
                    invs = [m_ for g_, m_ in solver_of(body.func.value.id, s.node.lineno) if g_[:len(s.guards)] == s.guards]
                    inner = _nc_mat(body.args[0], d, MAT, A_, AH, {arg: x})
                    shape_ok = bool(invs) and all(want[key](m_) for m_ in invs) and inner == AH * x
                if key == "thick" and isinstance(body, ast.BinOp) and isinstance(body.op, (ast.Mult, ast.MatMult)) and isinstance(body.right, ast.Call) and isinstance(body.right.func, ast.Attribute) \
                        and body.right.func.attr == "solve" and isinstance(body.right.func.value, ast.Name):
                    invs = [m_ for g_, m_ in solver_of(body.right.func.value.id, s.node.lineno) if g_[:len(s.guards)] == s.guards]
                    left = _nc_mat(body.left, d, MAT, A_, AH)
                    rhs = _nc_mat(body.right.args[0], d, MAT, A_, AH, {arg: x})
                    shape_ok = bool(invs) and all(want[key](m_) for m_ in invs) and left == AH and rhs == x
                ok = shape_ok
                why = "%s case is `%s`" % (key, unparse(lam)[:90])
        r2.check(ok, "_Solver " + key, DO, "_Solver.__init__", s.node.lineno if s is not None else init.lineno, "pseudo-inverse %s case" % key, why)
    shp = [s for s in S if s.target == "self._shape"]
    r2.check(len(shp) == 1 and shp[0].value == "(%s.shape[1],%s.shape[0])" % (MAT, MAT), "_Solver shape", DO, "_Solver.__init__", init.lineno, "pseudo-inverse shape", "shape is `%s`" % (shp[0].value if shp else None))
    sol = dm.fn("_Solver.solve")
    ds = roles.Defs(sol)
    rhs = arg_names(sol)[1]
    rs = [s for s in roles.stores(sol.body, ds, lv=False) if s.op == "return"]
    re, im, F = NC.op("Re"), NC.op("Im"), NC.op("F")
    from .proto import NCEval

    oks = bool(rs)
    for s in rs:
        leaves = {"_np.real(%s)" % rhs: re, "_np.imag(%s)" % rhs: im, rhs: re + NC.scalar("i") * im, "self": F}
        got = NCEval(leaves, morphisms=("solve", "_solve_fun")).ev(s.vnode)  # (unreadable expression: cannot analyse, not a verdict)
        oks = oks and got == F * (re + NC.scalar("i") * im)
    r2.check(oks, "_Solver.solve complex split", DO, "_Solver.solve", sol.lineno, "pseudo-inverse complex split", "some return path of solve is not F(Re x) + i F(Im x) = F x")


def _nc_mat(node, defs, MAT, A_, AH, extra=None):
    """NC term of a small matrix expression over the sparse matrix MAT and its conjugate transpose."""
    from .proto import NC

    extra = extra or {}
    if isinstance(node, ast.Name):
        if node.id in extra:
            return extra[node.id]
        if node.id == MAT:
            return A_
        dd = defs.lookup(node.id, getattr(node, "lineno", None))
        if dd is None:
            # names defined in both the try and the except branch (actual_mat): follow every definition, they must agree
            vals = {repr(_nc_mat(rec[1], defs, MAT, A_, AH, extra)) for _, _, rec in defs.all.get(node.id, []) if rec[0] == "expr"}
            if len(vals) == 1:
                return _nc_mat([rec[1] for _, _, rec in defs.all[node.id] if rec[0] == "expr"][0], defs, MAT, A_, AH, extra)
            raise AnalysisError("_Solver: cannot resolve `%s`" % node.id)
        if dd[0] == "expr":
            return _nc_mat(dd[1], defs, MAT, A_, AH, extra)
    if isinstance(node, ast.Call) and isinstance(node.func, ast.Attribute) and not node.args:
        inner = node.func.value
        if node.func.attr in ("tocsr", "tocsc"):
            return _nc_mat(inner, defs, MAT, A_, AH, extra)
        if node.func.attr == "transpose" and isinstance(inner, ast.Call) and isinstance(inner.func, ast.Attribute) and inner.func.attr in ("conjugate", "conj") and _nc_mat(inner.func.value, defs, MAT, A_, AH, extra) == A_:
            return AH
        if node.func.attr in ("conjugate", "conj") and isinstance(inner, ast.Call) and isinstance(inner.func, ast.Attribute) and inner.func.attr == "transpose" and _nc_mat(inner.func.value, defs, MAT, A_, AH, extra) == A_:
            return AH
    if isinstance(node, ast.Attribute) and node.attr in ("T", "H"):
        # (the loader spells x.transpose() as x.T)  conj().T / .T.conj() / .H of the matrix itself
        inner = node.value
        if node.attr == "H" and _nc_mat(inner, defs, MAT, A_, AH, extra) == A_:
            return AH
        if isinstance(inner, ast.Call) and isinstance(inner.func, ast.Attribute) and inner.func.attr in ("conjugate", "conj") and not inner.args and _nc_mat(inner.func.value, defs, MAT, A_, AH, extra) == A_:
            return AH
    if isinstance(node, ast.Call) and isinstance(node.func, ast.Attribute) and node.func.attr in ("conjugate", "conj") and not node.args \
            and isinstance(node.func.value, ast.Attribute) and node.func.value.attr == "T" and _nc_mat(node.func.value.value, defs, MAT, A_, AH, extra) == A_:
        return AH
    if isinstance(node, ast.BinOp) and isinstance(node.op, (ast.Mult, ast.MatMult)):
        return _nc_mat(node.left, defs, MAT, A_, AH, extra) * _nc_mat(node.right, defs, MAT, A_, AH, extra)
    raise AnalysisError("_Solver: expression outside the matrix-term subset: %s" % unparse(node)[:60])
