"""C14/C15: result dtypes that are folded over a list of operands must fold over *all* of them.

A packed vector / blocked operator takes the promotion of the dtypes of every block.  The repository computes such a
dtype by a loop `t = promote(t, item.dtype)`; if the loop-carried accumulator is not an argument of the promotion the
dtype is that of the last item only, and storing a complex block into the real result silently drops its imaginary
part.  The rule is phrased on the dataflow shape (assigned in a loop by a promotion call, read after the loop), not on
the spelling of a particular site.
"""

import ast

from .core import AnalysisError
from .src import unparse

FILES = [
    "bempp_cl/api/assembly/blocked_operator.py",
    "bempp_cl/api/assembly/discrete_boundary_operator.py",
    "bempp_cl/api/assembly/boundary_operator.py",
    "bempp_cl/api/assembly/grid_function.py",
]
PROMOTERS = {"promote_types", "result_type", "combined_type", "find_common_type", "common_type"}


def _callee(c):
    f = c.func
    return f.attr if isinstance(f, ast.Attribute) else (f.id if isinstance(f, ast.Name) else None)


def fold_sites(fn):
    """(loop, assignment, folds?) for every dtype accumulated in a loop of fn and read after it."""
    out = []
    for loop in ast.walk(fn):
        if not isinstance(loop, (ast.For, ast.While)):
            continue
        for st in ast.walk(loop):
            if not (isinstance(st, ast.Assign) and len(st.targets) == 1 and isinstance(st.targets[0], ast.Name) and isinstance(st.value, ast.Call) and _callee(st.value) in PROMOTERS):
                continue
            t = st.targets[0].id
            escapes = any(isinstance(n, ast.Name) and n.id == t and isinstance(n.ctx, ast.Load) and n.lineno > loop.end_lineno for n in ast.walk(fn))
            if not escapes:
                continue
            folds = any(isinstance(a, ast.Name) and a.id == t for a in st.value.args)
            out.append((loop, st, folds))
    # the same promotion written AFTER the loop, reading the loop's variable: it sees the last item only
    inside = {id(st) for loop in ast.walk(fn) if isinstance(loop, (ast.For, ast.While)) for st in ast.walk(loop)}
    for st in ast.walk(fn):
        if id(st) in inside or not (isinstance(st, ast.Assign) and len(st.targets) == 1 and isinstance(st.targets[0], ast.Name) and isinstance(st.value, ast.Call) and _callee(st.value) in PROMOTERS):
            continue
        used = {n.id for a in st.value.args for n in ast.walk(a) if isinstance(n, ast.Name)}
        for loop in ast.walk(fn):
            if isinstance(loop, ast.For) and loop.end_lineno < st.lineno:
                tv = {n.id for n in ast.walk(loop.target) if isinstance(n, ast.Name)}
                rebound = any(isinstance(n, ast.Name) and n.id in tv and isinstance(n.ctx, ast.Store) and loop.end_lineno < n.lineno < st.lineno for n in ast.walk(fn))
                if used & tv and not rebound:
                    out.append((loop, st, None))
                    break
    # de-duplicate (a nested loop is walked from both loops)
    seen = set()
    uniq = []
    for loop, st, folds in out:
        if id(st) in seen:
            continue
        seen.add(id(st))
        uniq.append((loop, st, folds))
    return uniq


def dtype_folds(ctx, rule_id="DTYPE-FOLD", floor=4):
    r = ctx.rule(rule_id, "a dtype accumulated over the blocks / list items in a loop and used afterwards folds over every item: the accumulator is an operand of each promotion", floor)
    for rel in FILES:
        m = ctx.repo.mod(rel)
        for fn in ast.walk(m.tree):
            if not isinstance(fn, ast.FunctionDef):
                continue
            for loop, st, folds in fold_sites(fn):
                if folds is None:
                    r.fail("%s::%s line %d" % (rel.rsplit("/", 1)[-1], fn.name, st.lineno), rel, fn.name, st.lineno, "dtype fold in %s: %s" % (fn.name, unparse(st.targets[0])),
                           "`%s` stands AFTER the loop over `%s` and reads that loop's variable: the promotion sees the last item only (a complex item before a real last one is stored into a real result and loses its imaginary part)" % (
                               unparse(st)[:90], unparse(loop.iter)[:40]))
                    continue
                r.check(folds, "%s::%s line %d" % (rel.rsplit("/", 1)[-1], fn.name, st.lineno), rel, fn.name, st.lineno, "dtype fold in %s: %s" % (fn.name, unparse(st.targets[0])),
                        "`%s` inside the loop over `%s` does not take the accumulated `%s` as an operand: the dtype used after the loop is that of the last item only (a complex block stored into a real result loses its imaginary part)" % (
                            unparse(st)[:90], unparse(loop.iter)[:40] if isinstance(loop, ast.For) else "while", unparse(st.targets[0])))
    bad = ast.parse("def f(items):\n    t = _np.dtype('float32')\n    for item in items:\n        t = _np.promote_types(_np.dtype('float32'), item.dtype)\n    return _np.zeros(3, dtype=t)\n").body[0]
    s = fold_sites(bad)
    r.must_fire(len(s) == 1 and not s[0][2], "promotion restarted from the floor type at every item")


def promote_double(ctx, rule_id="PROMOTE-DOUBLE"):
    """C18 (single precision agrees with double; `always_promote_to_double` selects the stored precision only):
    promote_to_double_precision maps float32 -> float64 and complex64 -> complex128 and leaves double precision arrays
    alone - in particular it never casts a complex array to a real type (NumPy drops the imaginary part with a warning
    only).  The function is executed abstractly once per dtype world; the dtype of every reachable return is read from
    the returned expression (`array` itself, `array.astype(T, ...)`, `np.asarray(array, dtype=T)`)."""
    from . import dispatch
    from .src import arg_names

    rel = "bempp_cl/api/utils/helpers.py"
    fn = ctx.repo.mod(rel).fn("promote_to_double_precision")
    r = ctx.rule(rule_id, "promote_to_double_precision: float32 -> float64, complex64 -> complex128, double precision unchanged (a complex array is never cast to a real type)", 4)
    a = arg_names(fn)[0]
    want = {"float32": "float64", "float64": "float64", "complex64": "complex128", "complex128": "complex128"}

    def dtype_of(node, dt):
        if isinstance(node, ast.Name) and node.id == a:
            return dt
        if isinstance(node, ast.Call):
            f = unparse(node.func).split(".")[-1]
            kw = {k.arg: k.value for k in node.keywords}
            tgt = None
            if f == "astype" and isinstance(node.func, ast.Attribute) and (node.args or "dtype" in kw):
                src, tgt = dtype_of(node.func.value, dt), (node.args[0] if node.args else kw["dtype"])
            elif f in ("asarray", "array", "ascontiguousarray", "require") and node.args:
                src = dtype_of(node.args[0], dt)
                tgt = kw.get("dtype") or (node.args[1] if len(node.args) > 1 and f != "require" else None)
                if tgt is None:
                    return src
            if tgt is not None:
                if isinstance(tgt, ast.Constant) and isinstance(tgt.value, str):
                    return tgt.value
                if isinstance(tgt, ast.Attribute) and unparse(tgt.value) in ("_np", "np", "numpy"):
                    return tgt.attr
                if isinstance(tgt, ast.Name) and tgt.id in ("float", "complex"):
                    return {"float": "float64", "complex": "complex128"}[tgt.id]
        raise AnalysisError("promote_to_double_precision: the dtype of `%s` is not read" % unparse(node)[:60])

    for dt, w in want.items():
        env = {"%s.dtype" % a: dt}
        for np_ in ("_np", "np"):
            env["%s.iscomplexobj(%s)" % (np_, a)] = dt.startswith("complex")
            env["%s.isrealobj(%s)" % (np_, a)] = not dt.startswith("complex")
            for t_ in want:
                env["%s.%s" % (np_, t_)] = t_
                env["%s.dtype('%s')" % (np_, t_)] = t_
        got = []
        for node in dispatch.reachable_returns(fn, env):
            if node is None or isinstance(node, str):
                got.append("nothing" if node is None else node)
            else:
                got.append(dtype_of(node, dt))
        r.check(got and all(g == w for g in got), "%s array" % dt, rel, fn.name, fn.lineno, "promotion of a %s array" % dt,
                "a %s array is returned as %s, expected %s%s" % (dt, sorted(set(got)), w, ": the imaginary part is dropped" if dt.startswith("complex") and any(g.startswith("float") for g in got) else ""))
