"""C10: plumbing of the Buffa-Christiansen fan coefficients (which pole's data reaches which helper).

A BC function has two poles (the end points of its coarse edge).  `_compute_bc_space_data` collects, per pole, one
bundle (barycentric edges around the pole, their sorted list, the number of cells, the position of the reference edge)
from one call of `_get_barycentric_edges_associated_to_vertex`, and hands both bundles to `_get_bary_coefficients`,
which - depending on whether a pole lies on the boundary of the grid - calls the border or the interior fan helper once
per pole.  The weights are functions of (position relative to the reference edge, number of cells) *of that pole*: a
helper call that mixes items of the two bundles puts the jump of the fan at the wrong barycentric edge, and the function
is no longer the Buffa-Christiansen function (its divergence around a boundary pole is not zero).

The rule is name-free: a bundle is the 4-tuple unpacked from one call; an item's role is its position in that tuple;
helpers and flags are identified by what they receive / are computed from.  The weights themselves are not decided here.
"""

import ast

from . import dispatch
from .core import AnalysisError
from .src import arg_names, unparse

MS = "bempp_cl/api/space/maxwell_spaces.py"
GR = "bempp_cl/api/grid/grid.py"


def _bundles(fn, collector):
    """[{name: role}] for the statements `a, b, c, d = collector(pole, ...)` of fn, with the pole expressions."""
    out = []
    for st in ast.walk(fn):
        if isinstance(st, ast.Assign) and isinstance(st.targets[0], ast.Tuple) and isinstance(st.value, ast.Call) and unparse(st.value.func) == collector \
                and all(isinstance(e, ast.Name) for e in st.targets[0].elts) and st.value.args:
            out.append(({e.id: i for i, e in enumerate(st.targets[0].elts)}, unparse(st.value.args[0]), st.lineno))
    return out


def param_roles(ctx):
    """{parameter position of _get_bary_coefficients: (bundle, role)} from its one call in _compute_bc_space_data."""
    fn = ctx.repo.mod(MS).fn("_compute_bc_space_data")
    calls = [c for c in ast.walk(fn) if isinstance(c, ast.Call) and unparse(c.func) == "_get_bary_coefficients"]
    if len(calls) != 1 or calls[0].keywords:
        raise AnalysisError("_compute_bc_space_data: no single positional call of _get_bary_coefficients")
    coll = {}
    for st in ast.walk(fn):
        if isinstance(st, ast.Assign) and isinstance(st.targets[0], ast.Tuple) and len(st.targets[0].elts) == 4 and isinstance(st.value, ast.Call) and isinstance(st.value.func, ast.Name):
            coll.setdefault(st.value.func.id, []).append(st)
    two = [k for k, v in coll.items() if len(v) == 2]
    if len(two) != 1:
        raise AnalysisError("_compute_bc_space_data: the two per-pole collector calls (4 values each) were not found")
    bs = _bundles(fn, two[0])
    if len(bs) != 2:
        raise AnalysisError("_compute_bc_space_data: per-pole bundles are not unpacked into plain names")
    out, probs = {}, []
    if bs[0][1] == bs[1][1]:
        probs.append("both bundles are collected around the same pole `%s`" % bs[0][1])
    for j, a in enumerate(calls[0].args):
        if isinstance(a, ast.Name):
            for k, (names, _, _) in enumerate(bs):
                if a.id in names:
                    out[j] = (k, names[a.id])
    have = sorted(out.values())
    if have != [(k, i) for k in (0, 1) for i in range(4)]:
        probs.append("_get_bary_coefficients receives the bundle items %s, expected each of the 2 x 4 items exactly once" % have)
    return out, probs, calls[0].lineno


def fan_bundles(ctx):
    r = ctx.rule("BC-FAN-BUNDLES", "Buffa-Christiansen fan coefficients: each helper call receives the edges, sorted list, cell count and reference position of ONE pole, in the same roles in every call; "
                 "per boundary case both poles are processed once, a pole on the boundary by the border helper, and the two poles with opposite constant signs", 9)
    roles_at, probs, line = param_roles(ctx)
    r.check(not probs, "bundles handed to _get_bary_coefficients", MS, "_compute_bc_space_data", line, "per-pole bundles", "; ".join(probs))
    fn = ctx.repo.mod(GR).fn("_get_bary_coefficients")
    params = arg_names(fn)
    role_of = {params[j]: kr for j, kr in roles_at.items() if j < len(params)}
    # the boundary flags: computed from role 0 (the barycentric edges) of one bundle
    flags = {}
    for st in fn.body:
        if isinstance(st, ast.Assign) and isinstance(st.targets[0], ast.Name) and isinstance(st.value, ast.Call) and st.value.args and isinstance(st.value.args[0], ast.Name) \
                and role_of.get(st.value.args[0].id, (None, None))[1] == 0:
            flags[role_of[st.value.args[0].id][0]] = st.targets[0].id
    if sorted(flags) != [0, 1]:
        raise AnalysisError("_get_bary_coefficients: the two boundary flags (computed from each pole's edges) were not found")
    body = [s for s in fn.body if not (isinstance(s, ast.Expr) and isinstance(s.value, ast.Constant))]
    seen = []  # (case, helper, bundle, {position: role}, sign)
    for f0 in (True, False):
        for f1 in (True, False):
            case = "pole 1 %s, pole 2 %s" % ("on the boundary" if f0 else "interior", "on the boundary" if f1 else "interior")
            effs = dispatch.effects(body, {flags[0]: f0, flags[1]: f1}, "_get_bary_coefficients", pinned=(flags[0], flags[1]))
            calls = []
            for e in effs:
                if e[0] in ("store", "set") and isinstance(e[2], str) and "(" in e[2]:
                    try:
                        node = ast.parse(e[2], mode="eval").body
                    except SyntaxError:
                        continue
                    if isinstance(node, ast.Call) and isinstance(node.func, ast.Name) and any(isinstance(a, ast.Name) and a.id in role_of for a in node.args):
                        calls.append(node)
            got = []
            for c in calls:
                items = {j: role_of[a.id] for j, a in enumerate(c.args) if isinstance(a, ast.Name) and a.id in role_of}
                ks = sorted({k for k, _ in items.values()})
                sign = [unparse(a).replace(" ", "") for a in c.args if isinstance(a, (ast.Constant, ast.UnaryOp)) and not isinstance(getattr(a, "value", None), str)]
                inst = "%s: %s(...)" % (case, c.func.id)
                if len(ks) != 1:
                    r.fail(inst + " #%d" % (len(got) + 1), GR, fn.name, fn.lineno, "fan helper call mixing the two poles",
                           "in the case `%s` the call `%s` receives items of both poles (%s): the weights of one pole are computed with the reference position / cell count of the other" % (
                               case, unparse(c)[:150], {unparse(c.args[j]): "pole %d item %d" % (k + 1, i) for j, (k, i) in items.items()}))
                    got.append((c.func.id, None, items, sign))
                    continue
                got.append((c.func.id, ks[0], {j: i for j, (k, i) in items.items()}, sign))
            poles = sorted(g[1] for g in got if g[1] is not None)
            if len(got) == 2 and poles == [0, 1]:
                for h, k, pos, sign in got:
                    full = sorted(pos.values()) == [0, 1, 2, 3]
                    want_border = (f0, f1)[k]
                    r.check(full == want_border, "%s: pole %d" % (case, k + 1), GR, fn.name, fn.lineno, "fan helper of pole %d when %s" % (k + 1, case),
                            "pole %d is %s but its coefficients come from `%s`, which %s the sorted edge list and reference position" % (
                                k + 1, "on the boundary" if want_border else "interior", h, "receives" if full else "does not receive"))
            elif not any(g[1] is None for g in got):
                r.fail(case, GR, fn.name, fn.lineno, "poles processed in the case " + case, "in the case `%s` the helper calls cover the poles %s (expected each pole exactly once)" % (case, [p + 1 for p in poles]))
            seen += [(case,) + g for g in got]
    # sibling agreement: per helper the same position -> role map in every call; per pole one constant sign, opposite for the two poles
    by_helper = {}
    for case, h, k, pos, sign in seen:
        if k is not None:
            by_helper.setdefault(h, set()).add(tuple(sorted(pos.items())))
    bad = {h: v for h, v in by_helper.items() if len(v) != 1}
    signs = {}
    for case, h, k, pos, sign in seen:
        if k is not None:
            signs.setdefault(k, set()).add(tuple(sign))
    ok_sign = all(len(v) == 1 for v in signs.values()) and len(signs) == 2 and all(len(next(iter(v))) == 1 for v in signs.values())
    if ok_sign:
        a, b = (float(next(iter(signs[k]))[0]) for k in (0, 1))
        ok_sign = a == -b and a != 0
    r.check(not bad and ok_sign, "sibling calls agree", GR, fn.name, fn.lineno, "role positions and signs over all helper calls",
            "helper calls disagree on which argument position carries which bundle item (%s) or the poles do not carry one constant sign each, opposite to one another (%s)" % (
                {h: sorted(v) for h, v in bad.items()}, {k + 1: sorted(v) for k, v in signs.items()}))
