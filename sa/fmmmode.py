"""C17: the FMM kernel family selected from an operator identifier (finite domain: every identifier a factory can produce)."""

import ast

from . import dispatch
from .core import AnalysisError
from .src import unparse

FA = "bempp_cl/api/fmm/fmm_assembler.py"


def identifiers(ctx):
    """First argument literals of every OperatorDescriptor(...) in the operator factories."""
    out = set()
    for rel in ctx.repo.py_files("bempp_cl/api/operators"):
        for n in ast.walk(ctx.repo.mod(rel).tree):
            if isinstance(n, ast.Call) and unparse(n.func).split(".")[-1] in ("OperatorDescriptor", "create_operator", "create_multitrace_operator", "MultitraceOperatorDescriptor") and n.args and isinstance(n.args[0], ast.Constant) and isinstance(n.args[0].value, str):
                out.add(n.args[0].value)
    if len(out) < 20:
        raise AnalysisError("only %d operator identifiers found in the factories" % len(out))
    return sorted(out)


def expected_mode(ident):
    if ident.startswith("modified_helmholtz"):
        return "modified_helmholtz"
    if ident.startswith("laplace"):
        return "laplace"
    if ident.startswith("helmholtz") or ident.startswith("maxwell"):
        return "helmholtz"  # Maxwell operators are sums of Helmholtz kernel evaluations
    return None


def curl_reuse(ctx):
    """make_scalar_hypersingular may take the target-side curl transforms from the source side only when both spaces are equal."""
    r = ctx.rule("FMM-CURL-REUSE", "hypersingular FMM evaluator: the test-side curl transformation is computed from dual_to_range; the trial-side one is reused only when the two spaces are equal", 2)
    fn = ctx.repo.mod(FA).fn("make_scalar_hypersingular")
    p = [a.arg for a in fn.args.args]
    D, T = p[2], p[3]
    body = [s for s in fn.body if not isinstance(s, (ast.FunctionDef, ast.Import, ast.ImportFrom, ast.Return)) and not (isinstance(s, ast.Expr) and isinstance(s.value, ast.Constant))]
    ifs = [s for s in body if isinstance(s, ast.If) and D in unparse(s.test) and T in unparse(s.test)]
    if len(ifs) != 1:
        raise AnalysisError("make_scalar_hypersingular: no single test comparing the two spaces")
    # the source-side pair: the tuple assigned from compute_p1_curl_transformation(<trial space>, ...) before the test
    src_pairs = [unparse(s.targets[0]).replace(" ", "") for s in body if isinstance(s, ast.Assign) and isinstance(s.targets[0], ast.Tuple)
                 and unparse(s.value).replace(" ", "").startswith("compute_p1_curl_transformation(%s," % D)]
    if len(src_pairs) != 1:
        raise AnalysisError("make_scalar_hypersingular: the trial-side curl transformation pair was not found")
    tgt_pair = None
    for same in (False, True):
        effs = dispatch.effects([ifs[0]], {D: "s", T: "s" if same else "t"}, "make_scalar_hypersingular")
        st = [e for e in effs if e[0] == "store"]
        src = st[0][2].replace(" ", "") if len(st) == 1 else ""
        own = src.startswith("compute_p1_curl_transformation(%s," % T)
        if not same and len(st) == 1:
            tgt_pair = st[0][1].replace(" ", "")  # what the different-spaces branch defines is the test-side pair
        reuse = src.strip("()") == src_pairs[0].strip("()")
        ok = len(st) == 1 and st[0][1].replace(" ", "") == tgt_pair and (own or (same and reuse))
        r.check(ok, "spaces %s" % ("equal" if same else "different"), FA, fn.name, ifs[0].lineno, "target curl transformation when the spaces are %s" % ("equal" if same else "different"),
                "with %s test and trial spaces the test-side curl transformation is `%s`" % ("equal" if same else "different", src[:80]))


def near_dispatch(ctx):
    """Which near-field kernel / correction an FMM interface gets, over the finite domains of mode, grid pair, representation."""
    HE = "bempp_cl/api/fmm/helpers.py"
    EX = "bempp_cl/api/fmm/exafmm.py"
    r = ctx.rule("FMM-NEAR-DISPATCH", "near-field correction: kernel named by the mode (laplace / helmholtz / modified_helmholtz) with that mode's parameters and complexity; present exactly when source and target grid coincide (otherwise the target points are the target grid's); unknown representations / device interfaces are rejected", 12)
    fn = ctx.repo.mod(HE).fn("get_local_interaction_operator")
    body = [s for s in fn.body if not isinstance(s, (ast.Import, ast.ImportFrom)) and not (isinstance(s, ast.Expr) and isinstance(s.value, ast.Constant))]
    kf = fn.args.args[2].arg
    names = {"laplace": "laplace_kernel", "helmholtz": "helmholtz_kernel", "modified_helmholtz": "modified_helmholtz_kernel"}
    rep_key = [unparse(n) for n in ast.walk(fn) if isinstance(n, ast.Attribute) and n.attr == "near_field_representation"]
    if not rep_key:
        raise AnalysisError("get_local_interaction_operator no longer reads fmm.near_field_representation")
    from . import roles

    params = [a.arg for a in fn.args.args]
    if len(params) != 7:
        raise AnalysisError("get_local_interaction_operator: signature changed (%s)" % params)
    G, PTS, CX, DEV = params[0], params[1], params[5], params[6]
    defs = roles.Defs(fn)
    shapes = {}
    for s in ast.walk(fn):
        if isinstance(s, ast.Return) and s.value is not None:
            sh = [k.value for c in ast.walk(s.value) if isinstance(c, ast.Call) for k in c.keywords if k.arg == "shape"]
            shapes[unparse(s.value)] = [roles.canon(x, defs).replace(" ", "") for x in sh]
    n_pts = "%s.shape[1]" % PTS
    want_shape = roles.expect("(4 * N * G.number_of_elements, N * G.number_of_elements)", defs, fn.body[-1].lineno, G=G, N=n_pts).replace(" ", "")
    for mode, kname in names.items():
        effs = dispatch.effects(body, {kf: mode, rep_key[0]: "sparse", CX: mode == "helmholtz"}, fn.name)
        ks = [e[2] for e in effs if e[0] == "set" and e[2] in names.values()]
        r.check(ks == [kname], "kernel for %s" % mode, HE, fn.name, fn.lineno, "near-field kernel of mode " + mode, "mode %r selects the kernel function %s, expected %s" % (mode, ks, kname))
    for rep, dev, want in (("sparse", "numba", "aslinearoperator"), ("evaluate", "numba", "LinearOperator"), ("evaluate", "opencl", "LinearOperator"), ("evaluate", "cuda", None), ("dense", "numba", None)):
        effs = dispatch.effects(body, {kf: "laplace", rep_key[0]: rep, DEV: dev, CX: False}, fn.name)
        ret = [e for e in effs if e[0] == "return"]
        raised = any(e[0] == "raise" for e in effs)
        if want is None:
            ok, msg = raised and not ret, "representation %r with device interface %r is not rejected" % (rep, dev)
        else:
            got_shape = shapes.get(ret[0][1]) if len(ret) == 1 else None
            ok = len(ret) == 1 and ret[0][1].replace(" ", "").startswith(want + "(") and got_shape == [want_shape] and not raised
            msg = "representation %r / device %r returns `%s` of shape %s, expected a %s of shape (4 * points * elements, points * elements) = %s" % (rep, dev, ret[0][1][:70] if ret else None, got_shape, want, want_shape)
        r.check(ok, "representation %s, device %s" % (rep, dev), HE, fn.name, fn.lineno, "near-field operator for (%s, %s)" % (rep, dev), msg)
    # the interface: correction only for identical grids, parameters per mode
    fg = ctx.repo.mod(EX).fn("ExafmmInterface.from_grid")
    start = [i for i, s in enumerate(fg.body) if isinstance(s, ast.If) and "source_grid" in unparse(s.test) and "target_grid" in unparse(s.test) and "None" not in unparse(s.test)]
    if not start:
        raise AnalysisError("ExafmmInterface.from_grid: comparison of source and target grid not found")
    tail = [s for s in fg.body[start[0]:] if not isinstance(s, ast.Return)]
    # the locals, by the role they play in the constructor call that is returned
    made = [s.value for s in fg.body if isinstance(s, ast.Return) and isinstance(s.value, ast.Call) and unparse(s.value.func) == "cls"]
    if len(made) != 1 or len(made[0].args) < 2 or not all(isinstance(a, ast.Name) for a in made[0].args[:2]):
        raise AnalysisError("ExafmmInterface.from_grid: no single `return cls(<source points>, <target points>, ...)`")
    SP, TP = made[0].args[0].id, made[0].args[1].id
    kw = {k.arg: k.value for k in made[0].keywords}
    if not isinstance(kw.get("singular_correction"), ast.Name):
        raise AnalysisError("ExafmmInterface.from_grid: the singular correction is not handed to the constructor as a local name")
    SC = kw["singular_correction"].id
    lps = [s.targets[0].elts[0].id for s in fg.body if isinstance(s, ast.Assign) and isinstance(s.targets[0], ast.Tuple) and isinstance(s.value, ast.Call) and unparse(s.value.func) == "rule" and isinstance(s.targets[0].elts[0], ast.Name)]
    spd = [unparse(s.value).replace(" ", "") for s in fg.body if isinstance(s, ast.Assign) and unparse(s.targets[0]) == SP]
    if len(lps) != 1 or len(spd) != 1 or not spd[0].startswith("source_grid.map_to_point_cloud("):
        raise AnalysisError("ExafmmInterface.from_grid: local quadrature points / source point cloud not found (%s, %s)" % (lps, spd))
    LP = lps[0]
    want_par = {"laplace": ("[]", "False"), "helmholtz": ("[_np.real(wavenumber),_np.imag(wavenumber)]", "True"), "modified_helmholtz": ("[wavenumber]", "False")}
    for same in (True, False):
        for mode in names:
            effs = dispatch.effects(tail, {"target_grid": "g", "source_grid": "g" if same else "h", "mode": mode}, "from_grid")
            sets = {e[1]: e[2] for e in effs if e[0] == "set"}
            tp = sets.get(TP, "")
            sc = sets.get(SC)
            if same:
                okp = tp == SP
                call = ast.parse(sc, mode="eval").body if isinstance(sc, str) and sc.startswith("get_local_interaction_operator(") else None
                okc = False
                if call is not None and len(call.args) >= 6:
                    a = [unparse(x).replace(" ", "") for x in call.args]
                    par = unparse(call.args[3].args[0]).replace(" ", "") if isinstance(call.args[3], ast.Call) and call.args[3].args else a[3]
                    okc = a[0] == "source_grid" and a[1] == LP and a[2] == "'%s'" % mode and par == want_par[mode][0] and a[5] == want_par[mode][1]
                ok, msg = okp and okc, "identical grids, mode %s: target points `%s`, correction `%s`" % (mode, tp, (sc or "")[:110])
            else:
                ok = tp.replace(" ", "").startswith("target_grid.map_to_point_cloud(") and sc is None
                msg = "different grids, mode %s: target points `%s`, correction `%s` (expected the target grid's point cloud and no correction)" % (mode, tp[:60], sc)
            r.check(ok, "grids %s, mode %s" % ("identical" if same else "different", mode), EX, "ExafmmInterface.from_grid", fg.lineno, "near-field correction for %s grids, mode %s" % ("identical" if same else "different", mode), msg)


def csr_counter(ctx):
    """get_local_interaction_matrix_impl: the running entry counter of the CSR arrays."""
    from . import roles

    HE = "bempp_cl/api/fmm/helpers.py"
    r = ctx.rule("FMM-NEAR-CSR", "sparse near-field matrix: per target element the entry counter starts at 4*np*np*(neighbour offset of the element), every row pointer records it before the row's entries, data and indices are written at the counter, which then advances by one", 1)
    fn = ctx.repo.mod(HE).fn("get_local_interaction_matrix_impl")
    defs = roles.Defs(fn)
    # the comparison is phrased on the function's own names, except locals that merely name an arithmetic fragment
    arith = {nm for nm, lst in defs.all.items() if len(lst) == 1 and lst[0][2][0] == "expr" and isinstance(lst[0][2][1], (ast.BinOp, ast.Constant)) and nm not in defs.multi}
    KEEP = tuple({n.id for n in ast.walk(fn) if isinstance(n, ast.Name)} - arith)
    S = roles.stores(fn.body, defs, keep=KEEP, lv=False)
    deep = [s for s in S if len(s.loops) == 5]
    ok, msg = None, "innermost loop nest not found"
    if deep:
        lT, lP, lC, lS, lQ = deep[0].loops
        incs = [s for s in deep if s.op != "=" and isinstance(s.tnode, ast.Name)]
        sts = [s for s in deep if s.op == "=" and isinstance(s.tnode, ast.Subscript)]
        if len(incs) == 1 and incs[0].op == "Add=" and incs[0].value == "1" and not incs[0].guards:
            C = incs[0].target
            at_c = [s for s in sts if unparse(s.tnode.slice) == C]
            arrays = sorted(unparse(s.tnode.value) for s in at_c)
            after = all(incs[0].node.lineno > s.node.lineno for s in at_c)
            init = [s for s in S if s.op == "=" and s.target == C and s.loops == (lT,)]
            T = lT.target.id if isinstance(lT.target, ast.Name) else "?"
            np_ = unparse(lQ.iter.args[0]) if isinstance(lQ.iter, ast.Call) and lQ.iter.args else "?"
            G = fn.args.args[0].arg
            ptrs = [s.targets[0].id for s in fn.body if isinstance(s, ast.Assign) and isinstance(s.targets[0], ast.Name) and unparse(s.value).replace(" ", "") == G + ".element_neighbor_indexptr"]
            PTR = ptrs[0] if len(ptrs) == 1 else G + ".element_neighbor_indexptr"
            want_init = roles.expect("4 * N * N * P[T]", defs, init[0].node.lineno, keep=KEEP, lv=False, N=np_, P=PTR, T=T) if init else None
            ptr = [s for s in S if s.loops == (lT, lP, lC) and s.op == "=" and isinstance(s.tnode, ast.Subscript)]
            okp = len(ptr) == 1 and unparse(ptr[0].vnode) == C and ptr[0].node.lineno < lS.lineno
            ok = len(at_c) == 2 and after and len(init) == 1 and init[0].value == want_init and okp and init[0].node.lineno < lP.lineno
            msg = "arrays written at the counter: %s (expected data and indices); counter advanced after them: %s; starts at `%s` (expected `%s`); row pointer records the counter before the row: %s" % (
                arrays, after, init[0].value if init else None, want_init, okp)
        else:
            msg = "the entry counter is not a single `+= 1` in the innermost loop (found %s)" % [(s.target, s.op, s.value) for s in incs]
    r.check(ok, "get_local_interaction_matrix_impl", HE, fn.name, fn.lineno, "CSR entry counter", msg)


def fmm_mode(ctx):
    r = ctx.rule("FMM-MODE", "get_mode_from_operator_identifier maps every identifier the factories produce to its kernel family (laplace / helmholtz / modified_helmholtz; Maxwell -> helmholtz) and rejects the others", 20)
    fn = ctx.repo.mod(FA).fn("get_mode_from_operator_identifier")
    p = fn.args.args[0].arg
    for ident in identifiers(ctx):
        want = expected_mode(ident)
        kind, node = dispatch.select(fn, {p: ident})
        got = node.value if kind == "return" and isinstance(node, ast.Constant) else None
        if want is None:
            ok = kind == "raise"
            msg = "identifier %r (no FMM kernel family) is mapped to %r instead of being rejected" % (ident, got)
        else:
            ok = got == want
            msg = "identifier %r is mapped to %r, expected %r" % (ident, got if kind == "return" else "an error", want)
        r.check(ok, ident, FA, fn.name, fn.lineno, "FMM mode of " + ident, msg)
    bad = ast.parse("def f(identifier):\n    d = identifier.split('_')[0]\n    if d == 'laplace':\n        return 'laplace'\n    elif d == 'modified':\n        return 'helmholtz'\n    raise ValueError()\n").body[0]
    k, n = dispatch.select(bad, {"identifier": "modified_helmholtz_single_layer_boundary"})
    r.must_fire(k == "return" and n.value != "modified_helmholtz", "modified Helmholtz mapped to the Helmholtz kernels")
