"""C17: the FMM kernel family selected from an operator identifier (finite domain: every identifier a factory can produce)."""

import ast

from . import dispatch
from .core import AnalysisError
from .src import unparse

FA = "bempp_cl/api/fmm/fmm_assembler.py"


def identifiers(ctx):
    """First argument literals of every OperatorDescriptor(...) in the operator factories."""
    out = set()
    for rel in ctx.repo.py_files("bempp_cl/api/operators"):
        for n in ast.walk(ctx.repo.mod(rel).tree):
            if isinstance(n, ast.Call) and unparse(n.func).split(".")[-1] in ("OperatorDescriptor", "create_operator", "create_multitrace_operator", "MultitraceOperatorDescriptor") and n.args and isinstance(n.args[0], ast.Constant) and isinstance(n.args[0].value, str):
                out.add(n.args[0].value)
    if len(out) < 20:
        raise AnalysisError("only %d operator identifiers found in the factories" % len(out))
    return sorted(out)


def expected_mode(ident):
    if ident.startswith("modified_helmholtz"):
        return "modified_helmholtz"
    if ident.startswith("laplace"):
        return "laplace"
    if ident.startswith("helmholtz") or ident.startswith("maxwell"):
        return "helmholtz"  # Maxwell operators are sums of Helmholtz kernel evaluations
    return None


def curl_reuse(ctx):
    """make_scalar_hypersingular may take the target-side curl transforms from the source side only when both spaces are equal."""
    r = ctx.rule("FMM-CURL-REUSE", "hypersingular FMM evaluator: the test-side curl transformation is computed from dual_to_range; the trial-side one is reused only when the two spaces are equal", 2)
    fn = ctx.repo.mod(FA).fn("make_scalar_hypersingular")
    p = [a.arg for a in fn.args.args]
    D, T = p[2], p[3]
    body = [s for s in fn.body if not isinstance(s, (ast.FunctionDef, ast.Import, ast.ImportFrom, ast.Return)) and not (isinstance(s, ast.Expr) and isinstance(s.value, ast.Constant))]
    ifs = [s for s in body if isinstance(s, ast.If) and D in unparse(s.test) and T in unparse(s.test)]
    if len(ifs) != 1:
        raise AnalysisError("make_scalar_hypersingular: no single test comparing the two spaces")
    for same in (True, False):
        effs = dispatch.effects([ifs[0]], {D: "s", T: "s" if same else "t"}, "make_scalar_hypersingular")
        st = [e for e in effs if e[0] == "store" and "target" in e[1]]
        src = st[0][2].replace(" ", "") if len(st) == 1 else ""
        own = src.startswith("compute_p1_curl_transformation(%s," % T)
        ok = len(st) == 1 and (own or (same and "source" in src and T not in src and D not in src))
        r.check(ok, "spaces %s" % ("equal" if same else "different"), FA, fn.name, ifs[0].lineno, "target curl transformation when the spaces are %s" % ("equal" if same else "different"),
                "with %s test and trial spaces the test-side curl transformation is `%s`" % ("equal" if same else "different", src[:80]))


def fmm_mode(ctx):
    r = ctx.rule("FMM-MODE", "get_mode_from_operator_identifier maps every identifier the factories produce to its kernel family (laplace / helmholtz / modified_helmholtz; Maxwell -> helmholtz) and rejects the others", 20)
    fn = ctx.repo.mod(FA).fn("get_mode_from_operator_identifier")
    p = fn.args.args[0].arg
    for ident in identifiers(ctx):
        want = expected_mode(ident)
        kind, node = dispatch.select(fn, {p: ident})
        got = node.value if kind == "return" and isinstance(node, ast.Constant) else None
        if want is None:
            ok = kind == "raise"
            msg = "identifier %r (no FMM kernel family) is mapped to %r instead of being rejected" % (ident, got)
        else:
            ok = got == want
            msg = "identifier %r is mapped to %r, expected %r" % (ident, got if kind == "return" else "an error", want)
        r.check(ok, ident, FA, fn.name, fn.lineno, "FMM mode of " + ident, msg)
    bad = ast.parse("def f(identifier):\n    d = identifier.split('_')[0]\n    if d == 'laplace':\n        return 'laplace'\n    elif d == 'modified':\n        return 'helmholtz'\n    raise ValueError()\n").body[0]
    k, n = dispatch.select(bad, {"identifier": "modified_helmholtz_single_layer_boundary"})
    r.must_fire(k == "return" and n.value != "modified_helmholtz", "modified Helmholtz mapped to the Helmholtz kernels")
