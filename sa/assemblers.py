"""Symbolic extraction of the Numba assembler loops (regular / singular / potential / sparse).

Each assembler is evaluated once by ``symex`` on symbolic inputs whose *roles*
are fixed by the position of the parameter in the registry signature.  The
result is the list of writes to the output array: index expressions and the
accumulated term, with every quantity expressed in canonical opaque atoms

  K⟨x0,x1,x2,y0,y1,y2,nx*,ny*⟩     kernel value at a point pair
  X(grid)⟨element, d, ξ0, ξ1⟩        global coordinate d of local point ξ on element
  φ(shapeset)⟨c, fun, ξ0, ξ1⟩        reference shape function
  RT(grid)⟨element, fun, d, ξ0, ξ1⟩  Piola-mapped reference function (get_piola_transform)
  ℓ(grid)⟨element, fun⟩              edge length (get_edge_lengths)
  grid.attr⟨...⟩                     grid tables (integration_elements, normals, jac_inv_trans ...)
  Σ⟨var⟩                             reduction marker, ¬adj⟨test element, trial element⟩ skip guard
"""

import ast

from . import symex
from .alg import I, Poly, V, vsum
from .core import AnalysisError
from .src import arg_names
from .symex import Arr, Interp, Opq, OpqArr, Tensor, View, opaque_atom, sigma, tov

NK = "bempp_cl/core/numba_kernels.py"

REGULAR_SIG = [
    "test_grid_data", "trial_grid_data", "nshape_test", "nshape_trial", "test_elements", "trial_elements",
    "test_multipliers", "trial_multipliers", "test_global_dofs", "trial_global_dofs", "test_normal_multipliers",
    "trial_normal_multipliers", "quad_points", "quad_weights", "kernel_evaluator", "kernel_parameters",
    "grids_identical", "test_shapeset", "trial_shapeset", "result",
]
SINGULAR_SIG = [
    "grid_data", "test_points", "trial_points", "quad_weights", "test_elements", "trial_elements", "test_offsets",
    "trial_offsets", "weights_offsets", "number_of_quad_points", "test_normal_multipliers", "trial_normal_multipliers",
    "nshape_test", "nshape_trial", "test_shapeset", "trial_shapeset", "kernel_evaluator", "kernel_parameters", "result",
]
POTENTIAL_SIG = [
    "dtype", "result_type", "kernel_dimension", "points", "x", "grid_data", "quad_points", "quad_weights",
    "number_of_shape_functions", "shapeset_evaluate", "kernel_function", "kernel_parameters", "normal_multipliers",
    "support_elements",
]
SPARSE_SIG = [
    "grid_data", "nshape_test", "nshape_trial", "elements", "quad_points", "quad_weights", "test_normal_multipliers",
    "trial_normal_multipliers", "test_multipliers", "trial_multipliers", "test_shapeset", "trial_shapeset",
    "test_basis_evaluate", "trial_basis_evaluate", "kernel_evaluator", "result",
]

SPARSE_KERNEL_SIG = [
    "grid_data", "nshape_test", "nshape_trial", "element_index", "elements", "quad_points", "quad_weights",
    "test_normal_multipliers", "trial_normal_multipliers", "test_multipliers", "trial_multipliers", "test_shapeset",
    "trial_shapeset", "test_basis_evaluate", "trial_basis_evaluate", "result",
]

GRID_ATTRS = {
    "integration_elements": (1, [None]),
    "normals": (2, [None, 3]),
    "jac_inv_trans": (3, [None, 3, 2]),
    "jacobians": (3, [None, 3, 2]),
    "vertices": (2, [3, None]),
    "elements": (2, [3, None]),
    "volumes": (1, [None]),
    "domain_indices": (1, [None]),
    "vertex_on_boundary": (1, [None]),
    "element_edges": (2, [3, None]),
    "edges": (2, [2, None]),
    "element_neighbor_indices": (1, [None]),
    "element_neighbor_indexptr": (1, [None]),
    "centroids": (2, [None, 3]),
    "diameters": (1, [None]),
}


class Grid(Opq):
    def __init__(self, name):
        Opq.__init__(self, name, "grid")
        self.tables = {}

    def table(self, attr):
        if attr not in self.tables:
            nd, shp = GRID_ATTRS[attr]
            shape = [s if s is not None else opaque_atom("#%s.%s/%d" % (self.desc, attr, k)) for k, s in enumerate(shp)]
            self.tables[attr] = Arr("%s.%s" % (self.desc, attr), "input", ndim=nd, shape=shape)
        return self.tables[attr]


class L2G(OpqArr):
    """grid.local2global(element, local_points): [3, npoints]."""

    def __init__(self, grid, element, points):
        OpqArr.__init__(self, "X(%s)" % grid.desc, 2)
        self.grid, self.element, self.points = grid, element, points


class ShapeVals(OpqArr):
    """shapeset(local_points): [dim, nfun, npoints]."""

    def __init__(self, name, points):
        OpqArr.__init__(self, "φ(%s)" % name, 3)
        self.name, self.points = name, points


class Piola(OpqArr):
    """get_piola_transform(grid, elements, points): [nel, 3, 3, npoints]."""

    def __init__(self, grid, elements, points):
        OpqArr.__init__(self, "RT(%s)" % grid.desc, 4)
        self.grid, self.elements, self.points = grid, elements, points


class EdgeLen(OpqArr):
    def __init__(self, grid, elements):
        OpqArr.__init__(self, "ℓ(%s)" % grid.desc, 2)
        self.grid, self.elements = grid, elements


class KernelVals(OpqArr):
    def __init__(self, args, singular):
        OpqArr.__init__(self, "K", None)
        self.args = args
        self.singular = singular
        self.ndim = None


class BasisEval(OpqArr):
    """test_basis_evaluate(element, shapeset, points, grid, multipliers, normal_multipliers)."""

    def __init__(self, name, args):
        OpqArr.__init__(self, "B(%s)" % name, None)
        self.name, self.args = name, args


def _local_point(it, points, q, node):
    """(ξ0, ξ1) of local point number q of a [2, n] point array."""
    return [tov(it.index(points, [c, q], node)) for c in range(2)]


def _elem(it, elements, k, node):
    if isinstance(elements, (list, tuple)):
        return tov(elements[symex._as_int(k, it, node)])
    return tov(it.index(elements, [k], node))


def _vec3(it, v, node, extra=None):
    """Three components of a vector-like; None argument -> zeros marker."""
    if v is None:
        return [V.atom("∅")] * 3
    out = []
    for d in range(3):
        idx = [d] + ([extra] if extra is not None else [])
        out.append(tov(it.index(v, idx, node)))
    return out


class Hooks:
    """Hook set shared by all assembler kinds."""

    def __init__(self, ctx, kind):
        self.ctx = ctx
        self.kind = kind
        self.kernel_calls = []
        self.adjacency_tests = []
        self.continue_guards = []
        self.basis_calls = []

    def as_dict(self):
        return {
            "globals": {"M_INV_4PI": V.atom("M_INV_4PI"), "_np": Opq("_np", "module"), "_numba": Opq("_numba", "module")},
            "attr": self.attr,
            "method": self.method,
            "opaque_call": self.opaque_call,
            "opaque_read": self.opaque_read,
            "opaque_calls": {"get_piola_transform": self.piola, "get_edge_lengths": self.edge_lengths, "elements_adjacent": self.adjacent_value},
            "if": self.if_,
            "continue_guard": self.continue_guard,
            "literal_axes": self.literal_axes,
            "literal_shape": self.literal_shape,
        }

    # -- attribute / method access on grid objects
    def attr(self, it, base, attr, node):
        if isinstance(base, Grid):
            if attr in GRID_ATTRS:
                return base.table(attr)
            raise AnalysisError("unknown grid_data attribute .%s" % attr)
        if isinstance(base, Opq) and base.kind == "dtype" and attr == "type":
            return Opq("cast", "cast")
        return None

    def method(self, it, recv, meth, args, node):
        if isinstance(recv, Grid) and meth == "local2global" and len(args) == 2:
            return L2G(recv, tov(args[0]), args[1])
        if isinstance(recv, Opq) and recv.kind == "cast":
            return args[0]
        return None

    def piola(self, it, args, node):
        if len(args) != 3 or not isinstance(args[0], Grid):
            raise AnalysisError("get_piola_transform call shape changed")
        return Piola(args[0], args[1], args[2])

    def edge_lengths(self, it, args, node):
        if len(args) != 2 or not isinstance(args[0], Grid):
            raise AnalysisError("get_edge_lengths call shape changed")
        return EdgeLen(args[0], args[1])

    def adjacent_value(self, it, args, node):
        """elements_adjacent(...) used as a VALUE (flag[k] = elements_adjacent(..)): the adjacency marker; gated when the
        statement stands under `if grids_identical:`"""
        if len(args) != 3:
            raise AnalysisError("elements_adjacent arity changed")
        self.adjacency_tests.append({"table": args[0], "e1": tov(args[1]), "e2": tov(args[2]), "node": node, "gated": getattr(self, "_gate_depth", 0) > 0})
        return opaque_atom("adj", [tov(args[1]), tov(args[2])])

    def opaque_call(self, it, f, args, node):
        if f.kind == "kernel":
            kv = KernelVals(args, self.kind == "singular")
            self.kernel_calls.append((kv, node, list(it.loops)))
            return kv
        if f.kind == "shapeset":
            if len(args) != 1:
                raise AnalysisError("shapeset called with %d arguments" % len(args))
            return ShapeVals(f.desc, args[0])
        if f.kind == "basis":
            b = BasisEval(f.desc, args)
            self.basis_calls.append((b, node))
            return b
        if f.kind == "sparse_kernel":
            raise AnalysisError("unexpected sparse kernel call")
        return None

    def opaque_read(self, it, base, idx):
        node = it.fn
        if isinstance(base, L2G):
            d, q = idx
            xi = _local_point(it, base.points, q, node)
            return opaque_atom(base.desc, [base.element, d] + xi)
        if isinstance(base, ShapeVals):
            c, f, q = idx
            xi = _local_point(it, base.points, q, node)
            return opaque_atom(base.desc, [c, f] + xi)
        if isinstance(base, Piola):
            k, f, d, q = idx
            xi = _local_point(it, base.points, q, node)
            return opaque_atom(base.desc, [_elem(it, base.elements, k, node), f, d] + xi)
        if isinstance(base, EdgeLen):
            k, f = idx
            return opaque_atom(base.desc, [_elem(it, base.elements, k, node), f])
        if isinstance(base, KernelVals):
            a = base.args
            if len(a) != 5:
                raise AnalysisError("kernel evaluator called with %d arguments" % len(a))
            comp = None
            if len(idx) == 2:
                comp, j = idx
            else:
                (j,) = idx
            if base.singular:
                x = _vec3(it, a[0], node, j)
                nx = _vec3(it, a[2], node)
                ny = _vec3(it, a[3], node)
            else:
                x = _vec3(it, a[0], node)
                nx = _vec3(it, a[2], node)
                ny = _vec3(it, a[3], node, j) if a[3] is not None else _vec3(it, None, node)
            y = _vec3(it, a[1], node, j)
            if not isinstance(a[4], Tensor) or a[4].items != self.kparams.items:
                raise AnalysisError("kernel evaluator does not receive kernel_parameters unchanged")
            return opaque_atom("K" if comp is None else "K%s" % symex.idx_str(comp), x + y + nx + ny)
        if isinstance(base, BasisEval):
            # B(name)[shapeset|points|grid|multipliers|normal multipliers]⟨element, idx...⟩
            a = base.args
            if len(a) != 6:
                raise AnalysisError("basis evaluator called with %d arguments" % len(a))
            return opaque_atom("%s[%s|%s|%s|%s|%s]" % (base.desc, symex.describe(a[1]), symex.describe(a[2]), symex.describe(a[3]), symex.describe(a[4]), symex.describe(a[5])),
                               [tov(a[0])] + [tov(i) for i in idx])
        return None

    def literal_axes(self, it, base):
        if isinstance(base, L2G):
            return [3, None]
        if isinstance(base, Piola):
            return [None, 3, 3, None]
        if isinstance(base, EdgeLen):
            return [None, 3]
        return None

    def literal_shape(self, it, v):
        return None

    # -- adjacency guard
    def if_(self, it, st):
        t = st.test
        is_adj = lambda x: isinstance(x, ast.Call) and ast.unparse(x.func) == "elements_adjacent"
        # `if grids_identical:` / `if not grids_identical:` - a test on the boolean INPUT: the branch of the world being
        # interpreted is taken (self.grids_world: True = test and trial spaces on one grid; the rule runs both worlds)
        g, neg = (t.operand, True) if isinstance(t, ast.UnaryOp) and isinstance(t.op, ast.Not) else (t, False)
        if isinstance(g, ast.Name):
            try:
                flag = it.ev(g)
            except AnalysisError:
                flag = None
            if isinstance(flag, Opq) and flag.kind == "grids_identical":
                world = getattr(self, "grids_world", True)
                self.gate_tests = getattr(self, "gate_tests", 0) + 1
                take = world != neg
                self._gate_depth = getattr(self, "_gate_depth", 0) + (1 if take == (not neg) else 0)
                try:
                    it.block(st.body if take else st.orelse)
                finally:
                    self._gate_depth -= (1 if take == (not neg) else 0)
                return True
        a = b = None
        if isinstance(t, ast.BoolOp) and isinstance(t.op, ast.And) and len(t.values) == 2:
            x, y = t.values
            if isinstance(x, ast.Name) and is_adj(y):
                a, b = x, y
            elif isinstance(y, ast.Name) and is_adj(x):
                a, b = y, x
        elif is_adj(t):
            b = t  # adjacency test without any gate: recorded, reported by the rule that reads adjacency_tests
        if b is not None:
            if True:
                gated = getattr(self, "_gate_depth", 0) > 0  # (standing under `if grids_identical:`)
                if a is not None:
                    flag = it.ev(a)
                    if not (isinstance(flag, Opq) and flag.kind == "grids_identical"):
                        raise AnalysisError("adjacency test is not gated by the grids_identical parameter")
                    gated = True
                    if not getattr(self, "grids_world", True):
                        return True  # different grids: the conjunction is false, nothing is written
                args = [it.ev(x) for x in b.args]
                if len(args) != 3:
                    raise AnalysisError("elements_adjacent arity changed")
                if not (len(st.body) == 1 and isinstance(st.body[0], ast.Assign) and not st.orelse):
                    raise AnalysisError("adjacency branch shape changed")
                tgt = st.body[0].targets[0]
                val = st.body[0].value
                if not (isinstance(val, ast.Constant) and val.value is True and isinstance(tgt, ast.Subscript)):
                    raise AnalysisError("adjacency branch does not set a flag to True")
                arr = it.ev(tgt.value)
                spec = it.slice_spec(tgt.slice, arr, st)
                marker = opaque_atom("adj", [tov(args[1]), tov(args[2])])
                self.adjacency_tests.append({"table": args[0], "e1": tov(args[1]), "e2": tov(args[2]), "node": st, "gated": gated})
                it.write(arr, spec, "=", marker, st)
                return True
        return None

    def continue_guard(self, it, st):
        v = it.ev(st.test)
        if isinstance(v, V) and v.iszero() and not getattr(self, "grids_world", True):
            return None  # different grids: the flag was initialised to False and never set, no pair is skipped
        if not isinstance(v, V):
            raise AnalysisError("continue guard on a non-flag value")
        ats = [a for a in v.atoms()]
        if len(ats) != 1 or not ats[0].startswith("adj⟨") or not v.eq(V.atom(ats[0])):
            raise AnalysisError("continue guard is not an adjacency flag: %r" % (v,))
        desc, idx = symex.ATOMS[ats[0]]
        self.continue_guards.append((idx, st))
        return opaque_atom("¬adj", list(idx))


def _sym_inputs(kind, params, hooks):
    env = {}
    N = lambda s: opaque_atom("#" + s)

    def arr(name, nd, shape):
        return Arr(name, "input", ndim=nd, shape=shape)

    if kind == "regular":
        nq = N("quad")
        env = {
            "test_grid_data": Grid("test_grid_data"),
            "trial_grid_data": Grid("trial_grid_data"),
            "nshape_test": N("nshape_test"),
            "nshape_trial": N("nshape_trial"),
            "test_elements": arr("test_elements", 1, [N("test_elements")]),
            "trial_elements": arr("trial_elements", 1, [N("trial_elements")]),
            "test_multipliers": arr("test_multipliers", 2, [N("tg"), N("nshape_test")]),
            "trial_multipliers": arr("trial_multipliers", 2, [N("rg"), N("nshape_trial")]),
            "test_global_dofs": arr("test_global_dofs", 2, [N("tg"), N("nshape_test")]),
            "trial_global_dofs": arr("trial_global_dofs", 2, [N("rg"), N("nshape_trial")]),
            "test_normal_multipliers": arr("test_normal_multipliers", 1, [N("tg")]),
            "trial_normal_multipliers": arr("trial_normal_multipliers", 1, [N("rg")]),
            "quad_points": arr("quad_points", 2, [2, nq]),
            "quad_weights": arr("quad_weights", 1, [nq]),
            "kernel_evaluator": Opq("kernel_evaluator", "kernel"),
            "grids_identical": Opq("grids_identical", "grids_identical"),
            "test_shapeset": Opq("test_shapeset", "shapeset"),
            "trial_shapeset": Opq("trial_shapeset", "shapeset"),
            "result": arr("result", 2, [N("rows"), N("cols")]),
        }
    elif kind == "singular":
        env = {
            "grid_data": Grid("grid_data"),
            "test_points": arr("test_points", 2, [2, N("allpts")]),
            "trial_points": arr("trial_points", 2, [2, N("allpts")]),
            "quad_weights": arr("quad_weights", 1, [N("allw")]),
            "test_elements": arr("test_elements", 1, [N("pairs")]),
            "trial_elements": arr("trial_elements", 1, [N("pairs")]),
            "test_offsets": arr("test_offsets", 1, [N("pairs")]),
            "trial_offsets": arr("trial_offsets", 1, [N("pairs")]),
            "weights_offsets": arr("weights_offsets", 1, [N("pairs")]),
            "number_of_quad_points": arr("number_of_quad_points", 1, [N("pairs")]),
            "test_normal_multipliers": arr("test_normal_multipliers", 1, [N("g")]),
            "trial_normal_multipliers": arr("trial_normal_multipliers", 1, [N("g")]),
            "nshape_test": N("nshape_test"),
            "nshape_trial": N("nshape_trial"),
            "test_shapeset": Opq("test_shapeset", "shapeset"),
            "trial_shapeset": Opq("trial_shapeset", "shapeset"),
            "kernel_evaluator": Opq("kernel_evaluator", "kernel"),
            "result": arr("result", 1, [N("res")]),
        }
    elif kind == "potential":
        nq = N("quad")
        env = {
            "dtype": Opq("dtype", "dtype"),
            "result_type": Opq("result_type", "dtype"),
            "points": arr("points", 2, [3, N("points")]),
            "x": arr("x", 1, [N("x")]),
            "grid_data": Grid("grid_data"),
            "quad_points": arr("quad_points", 2, [2, nq]),
            "quad_weights": arr("quad_weights", 1, [nq]),
            "number_of_shape_functions": N("nshape"),
            "shapeset_evaluate": Opq("shapeset", "shapeset"),
            "kernel_function": Opq("kernel_function", "kernel"),
            "normal_multipliers": arr("normal_multipliers", 1, [N("g")]),
            "support_elements": arr("support_elements", 1, [N("support")]),
        }
    elif kind == "sparse_kernel":
        nq = N("quad")
        ev = fresh_var("element_index", N("elements"))
        env = {
            "grid_data": Grid("grid_data"),
            "nshape_test": N("nshape_test"),
            "nshape_trial": N("nshape_trial"),
            "element_index": ev,
            "elements": arr("elements", 1, [N("elements")]),
            "quad_points": arr("quad_points", 2, [2, nq]),
            "quad_weights": arr("quad_weights", 1, [nq]),
            "test_normal_multipliers": arr("test_normal_multipliers", 1, [N("g")]),
            "trial_normal_multipliers": arr("trial_normal_multipliers", 1, [N("g")]),
            "test_multipliers": arr("test_multipliers", 2, [N("g"), N("nshape_test")]),
            "trial_multipliers": arr("trial_multipliers", 2, [N("g"), N("nshape_trial")]),
            "test_shapeset": Opq("test_shapeset", "shapeset_obj"),
            "trial_shapeset": Opq("trial_shapeset", "shapeset_obj"),
            "test_basis_evaluate": Opq("test_basis", "basis"),
            "trial_basis_evaluate": Opq("trial_basis", "basis"),
            "result": arr("result", 1, [N("res")]),
        }
    else:
        raise AnalysisError("unknown assembler kind " + kind)
    return env


def fresh_var(name, bound):
    v = symex.fresh("ι" + name)
    symex.RANGES[v] = bound
    return V.atom(v)


def run_assembler(ctx, fname, kind, kparams, kernel_dimension=1, module=NK, grids_world=True):
    """Symbolically evaluate assembler ``fname``.  Returns (interp, hooks, return value)."""
    m = ctx.repo.mod(module)
    fn = m.fn(fname)
    params = arg_names(fn)
    sig = {"regular": REGULAR_SIG, "singular": SINGULAR_SIG, "potential": POTENTIAL_SIG, "sparse_kernel": SPARSE_KERNEL_SIG}[kind]
    if len(params) != len(sig):
        raise AnalysisError("%s: %d parameters, the %s registry signature has %d" % (fname, len(params), kind, len(sig)))
    if grids_world:
        symex.reset()  # (the nested pass for the other world continues the numbering of fresh atoms)
    hooks = Hooks(ctx, kind)
    hooks.grids_world = grids_world
    roles = _sym_inputs(kind, params, hooks)
    if kind != "sparse_kernel":
        roles["kernel_parameters"] = Tensor((len(kparams),), kparams)
        hooks.kparams = roles["kernel_parameters"]
    if kind == "potential":
        roles["kernel_dimension"] = kernel_dimension
    # bind by POSITION in the registry signature (roles are positional at the call site)
    args = {p: roles[s] for p, s in zip(params, sig)}
    it = Interp(m, fn, args, hooks.as_dict())
    ret = it.run()
    if grids_world and getattr(hooks, "gate_tests", 0):
        # the assembler branches on the boolean input grids_identical: the other world (test and trial spaces on different
        # grids) is interpreted as well; what it meets there on a decided path (a per-thread flag array that was allocated
        # without values and is never written, say) is reported by the interpreter itself (INTERP-FAULT)
        run_assembler(ctx, fname, kind, kparams, kernel_dimension, module, grids_world=False)
    return it, hooks, ret


def final_writes(it, arr_desc):
    """Writes to the array with descriptor arr_desc, in program order."""
    return [w for w in it.writes if w[0].desc == arr_desc]


def strip_markers(v, expect_prefixes=("Σ⟨", "¬adj⟨")):
    """Return (value with Σ/guard markers set to 1, sorted list of marker atoms found)."""
    env = {}
    found = []
    for a in v.atoms():
        if any(a.startswith(p) for p in expect_prefixes):
            env[a] = V.const(1)
            found.append(a)
    return (v.subs(env) if env else v), sorted(found)


def hypersingular_k2(ctx, rule):
    """C05: the k^2 term of the Helmholtz / modified Helmholtz hypersingular integrands.

    Both assemblers of each family must equal the spec  K * (curl.curl - kappa2 * phi psi n.n)  with
    kappa2 = k^2 (Helmholtz) resp. -omega^2 (modified); the two specs coincide at k = i*omega by construction,
    so agreement with the spec is the whole obligation."""
    from . import kernels as K

    reg = K.registries(ctx)
    for fam, kp in (("helmholtz", [K.KR, K.KI]), ("modified_helmholtz", [K.W])):
        for regname, kind, chk in (
            ("assembly_functions_regular", "regular", check_regular),
            ("assembly_functions_singular", "singular", check_singular),
        ):
            key = fam + "_hypersingular"
            if key not in reg.get(regname, {}):
                raise AnalysisError("registry %s lacks %s" % (regname, key))
            fname = reg[regname][key]
            res, it, hooks = chk(ctx, fname, key, kp)
            ln = ctx.repo.mod(NK).fn(fname).lineno
            bad = [(a, m) for a, ok, m in res if not ok]
            rule.check(not bad, "%s (%s)" % (fname, kind), NK, fname, ln,
                       "%s integrand: %s" % (key, "; ".join(a for a, _ in bad)) if bad else key,
                       "; ".join(m for _, m in bad))


def _accumulated(it, ws):
    """Total value stored in the output slot by the last write (reads back the final content)."""
    arr = ws[-1][0]
    pattern = ws[-1][2]
    return it.read(arr, list(pattern), it.fn)


# ====================================================================== specs

REFGRAD = [[-1, 1, 0], [-1, 0, 1]]


class Pt:
    """A quadrature point: grid name, element expr, local coordinates, weight, normal-multiplier table."""

    def __init__(self, grid, elem, xi, weight, nmult):
        self.grid, self.elem, self.xi, self.weight, self.nmult = grid, elem, xi, weight, nmult

    def X(self):
        return [opaque_atom("X(%s)" % self.grid, [self.elem, d] + self.xi) for d in range(3)]

    def n(self):
        return [opaque_atom("%s.normals" % self.grid, [self.elem, d]) * opaque_atom(self.nmult, [self.elem]) for d in range(3)]

    def J(self):
        return opaque_atom("%s.integration_elements" % self.grid, [self.elem])

    def phi(self, shapeset, f, c=0):
        return opaque_atom("φ(%s)" % shapeset, [c, f] + self.xi)

    def RT(self, f):
        return [opaque_atom("RT(%s)" % self.grid, [self.elem, f, d] + self.xi) for d in range(3)]

    def ell(self, f):
        return opaque_atom("ℓ(%s)" % self.grid, [self.elem, f])

    def curl(self, f):
        """Surface curl n x (J^{-T} grad_ref phi_f) of reference P1 function f (f literal 0..2)."""
        grad = [vsum(opaque_atom("%s.jac_inv_trans" % self.grid, [self.elem, r, c]) * V.const(REFGRAD[c][f]) for c in range(2)) for r in range(3)]
        n = self.n()
        return [n[1] * grad[2] - n[2] * grad[1], n[2] * grad[0] - n[0] * grad[2], n[0] * grad[1] - n[1] * grad[0]]


def curl_product(tp, rp, tf, rf):
    """sum_{a,b} delta(tf,a) delta(rf,b) curl_a(test) . curl_b(trial)  (tf, rf symbolic function indices)."""
    return vsum(
        opaque_atom("δ", [tf, a]) * opaque_atom("δ", [rf, b]) * dot3(tp.curl(a), rp.curl(b)) for a in range(3) for b in range(3)
    )


NONE3 = [V.atom("∅")] * 3


def K_atom(tp, rp, with_normals=True, comp=None):
    nx = tp.n() if with_normals else NONE3
    ny = rp.n() if with_normals else NONE3
    return opaque_atom("K" if comp is None else "K%d" % comp, tp.X() + rp.X() + nx + ny)


def dot3(a, b):
    return vsum(x * y for x, y in zip(a, b))


def cross3(a, b):
    return [a[1] * b[2] - a[2] * b[1], a[2] * b[0] - a[0] * b[2], a[0] * b[1] - a[1] * b[0]]


def integrand_core(assembly_type, tp, rp, tf, rf, kparams):
    """Integrand at a point pair, without quadrature weights, J factors of the *reference* map included where the
    assembler applies them (see callers), for test function tf and trial function rf."""
    if assembly_type == "default_scalar":
        return K_atom(tp, rp) * tp.phi("test_shapeset", tf) * rp.phi("trial_shapeset", rf)
    if assembly_type == "laplace_hypersingular":
        return K_atom(tp, rp) * curl_product(tp, rp, tf, rf)
    if assembly_type in ("helmholtz_hypersingular", "modified_helmholtz_hypersingular"):
        if assembly_type.startswith("modified"):
            k2 = -(kparams[0] * kparams[0])
        else:
            k = kparams[0] + I * kparams[1]
            k2 = k * k
        return K_atom(tp, rp) * (
            curl_product(tp, rp, tf, rf)
            - k2 * tp.phi("test_shapeset", tf) * rp.phi("trial_shapeset", rf) * dot3(tp.n(), rp.n())
        )
    if assembly_type == "maxwell_electric_field":
        k = kparams[0] + I * kparams[1]
        return (
            K_atom(tp, rp, False)
            * (-(I * k) * dot3(tp.RT(tf), rp.RT(rf)) - V.const(4) / (I * k * tp.J() * rp.J()))
            * tp.ell(tf) * rp.ell(rf)
        )
    if assembly_type == "maxwell_magnetic_field":
        k = kparams[0] + I * kparams[1]
        diff = [a - b for a, b in zip(tp.X(), rp.X())]
        dist = dot3(diff, diff).sqrt()
        return (
            K_atom(tp, rp, False)
            * (I * k * dist - V.const(1)) / (dist * dist)
            * dot3(diff, cross3(tp.RT(tf), rp.RT(rf)))
            * tp.ell(tf) * rp.ell(rf)
        )
    raise AnalysisError("no integrand spec for assembly type %s" % assembly_type)


def _single_atom(v):
    """Name of the atom if v is exactly one atom (coefficient 1), else None."""
    if not isinstance(v, V):
        return None
    p = v.aspoly()
    if p is None or len(p.t) != 1:
        return None
    (k, c), = p.t.items()
    if len(k) == 1 and k[0][1] == 1 and c.re == 1 and not c.im:
        return k[0][0]
    return None


def destructure(v, desc, nidx):
    """If v is the single opaque atom desc⟨i1..in⟩ return its index list else None."""
    a = _single_atom(v)
    if a is None or a not in symex.ATOMS:
        return None
    d, idx = symex.ATOMS[a]
    if d != desc or len(idx) != nidx:
        return None
    return list(idx)


def markers(v):
    sig, adj = [], []
    for a in v.atoms():
        if a.startswith("Σ⟨"):
            sig.append(a)
        elif a.startswith("¬adj⟨"):
            adj.append(a)
    return sorted(sig), sorted(adj)


def sigma_var(marker):
    return marker[2:-1]


def check_regular(ctx, fname, assembly_type, kparams):
    """Return list of (aspect, ok, message) for a regular assembler."""
    it, hooks, _ = run_assembler(ctx, fname, "regular", kparams)
    out = []
    ws = final_writes(it, "result")
    if len(ws) != 1 or ws[0][1] != "+=":
        out.append(("scatter", False, "expected exactly one `+=` into result, found %s" % [w[1] for w in ws]))
        return out, it, hooks
    arr, op, idx, term, loops, node = ws[0]
    i0 = destructure(idx[0], "test_global_dofs", 2)
    i1 = destructure(idx[1], "trial_global_dofs", 2)
    if i0 is None or i1 is None:
        out.append(("scatter", False, "result is indexed with [%s, %s], expected [test_global_dofs[E_test, i], trial_global_dofs[E_trial, j]]"
                    % (symex.idx_str(idx[0]), symex.idx_str(idx[1]))))
        return out, it, hooks
    Et, tf = i0
    Er, rf = i1
    e0 = destructure(Et, "test_elements", 1)
    e1 = destructure(Er, "trial_elements", 1)
    okrole = e0 is not None and e1 is not None
    out.append(("scatter", okrole, "row/column dofs are looked up for elements %s / %s, expected test_elements[.] / trial_elements[.]"
                % (symex.idx_str(Et), symex.idx_str(Er))))
    if not okrole:
        return out, it, hooks
    sig, adj = markers(term)
    if len(sig) != 2:
        out.append(("integrand", False, "expected reductions over two quadrature indices, found %s" % sig))
        return out, it, hooks
    expect_adj = opaque_atom("¬adj", [Et, Er])
    ok_adj = len(adj) == 1 and _single_atom(expect_adj) == adj[0]
    out.append(("adjacency-guard", ok_adj, "accumulation is guarded by %s, expected skip of adjacent (test element, trial element) pairs" % adj))
    # the adjacency predicate itself: elements_adjacent(test_grid_data.elements, test element, trial element) under grids_identical
    tests = hooks.adjacency_tests
    def _is_trial_elem(v):
        ix = destructure(v, "trial_elements", 1)
        nm = _single_atom(ix[0]) if ix else None
        return nm is not None and _range_is(nm, opaque_atom("#trial_elements"))

    ok_t = len(tests) == 1 and isinstance(tests[0]["table"], Arr) and tests[0]["table"].desc == "test_grid_data.elements" and (
        (tests[0]["e1"].eq(Et) and _is_trial_elem(tests[0]["e2"])) or (_is_trial_elem(tests[0]["e1"]) and tests[0]["e2"].eq(Et)))
    out.append(("adjacency-test", ok_t, "adjacency is tested with %s" % ([(t["table"].desc if isinstance(t["table"], Arr) else "?", symex.idx_str(t["e1"]), symex.idx_str(t["e2"])) for t in tests],)
                + ", expected elements_adjacent(test_grid_data.elements, test element, trial element) once per pair"))
    ungated = [t for t in tests if not t.get("gated", True)]
    out.append(("adjacency-gate", not ungated, "element pairs with a common vertex NUMBER are skipped whether or not test and trial grid are the same grid (the test is not gated by grids_identical): "
                "between two different grids nothing adds these pairs back, and their vertex numbers have nothing to do with each other"))
    ok_any = False
    for pv, qv in ((sig[0], sig[1]), (sig[1], sig[0])):
        p, q = V.atom(sigma_var(pv)), V.atom(sigma_var(qv))
        tp = Pt("test_grid_data", Et, [opaque_atom("quad_points", [0, p]), opaque_atom("quad_points", [1, p])],
                opaque_atom("quad_weights", [p]), "test_normal_multipliers")
        rp = Pt("trial_grid_data", Er, [opaque_atom("quad_points", [0, q]), opaque_atom("quad_points", [1, q])],
                opaque_atom("quad_weights", [q]), "trial_normal_multipliers")
        core = integrand_core(assembly_type, tp, rp, tf, rf, kparams)
        exp = (
            core * tp.weight * rp.weight * tp.J() * rp.J()
            * opaque_atom("test_multipliers", [Et, tf]) * opaque_atom("trial_multipliers", [Er, rf])
            * V.atom(pv) * V.atom(qv) * (expect_adj if ok_adj else V.const(1))
        )
        act = term if ok_adj else strip_markers(term, ("¬adj⟨",))[0]
        if act.eq(exp):
            ok_any = True
            break
    out.append(("integrand", ok_any, "accumulated term differs from  K * w_x w_y J_x J_y * <%s integrand> * multipliers" % assembly_type))
    return out, it, hooks


def _static_result_slots(ctx, fname, module=NK):
    """Fallback when the interpretation of a singular assembler stops at a store index it cannot reason about: read
    every store into the result array from the syntax and compare its index, as a polynomial in the loop variables,
    with the layout the reader decodes: nshape_test*nshape_trial*pair + nshape_trial*i + j (i over range(nshape_test),
    j over range(nshape_trial), pair the variable of the outer parallel loop).  Returns a list of deviating stores
    [(line, index text)] or None when the syntax cannot be read that way."""
    fn = ctx.repo.mod(module).fn(fname)
    params = arg_names(fn)
    role = dict(zip(SINGULAR_SIG, params))
    RES, NT, NR = role["result"], role["nshape_test"], role["nshape_trial"]
    loopvar = {}

    def visit(body, env):
        for st in body:
            if isinstance(st, ast.For) and isinstance(st.target, ast.Name) and isinstance(st.iter, ast.Call) and st.iter.args:
                f = ast.unparse(st.iter.func).split(".")[-1]
                arg = ast.unparse(st.iter.args[0]).replace(" ", "")
                kind = "i" if (f == "range" and arg == NT) else "j" if (f == "range" and arg == NR) else "pair" if f == "prange" else None
                yield from visit(st.body, dict(env, **({st.target.id: kind} if kind else {})))
            elif isinstance(st, (ast.For, ast.While, ast.If, ast.With)):
                for blk in (getattr(st, "body", []), getattr(st, "orelse", [])):
                    yield from visit(blk, env)
            else:
                tgt = st.target if isinstance(st, ast.AugAssign) else (st.targets[0] if isinstance(st, ast.Assign) and len(st.targets) == 1 else None)
                if isinstance(tgt, ast.Subscript) and isinstance(tgt.value, ast.Name) and tgt.value.id == RES:
                    yield st, tgt.slice, env

    def poly(e, env):
        if isinstance(e, ast.Constant) and isinstance(e.value, int):
            return V.const(e.value)
        if isinstance(e, ast.Name):
            if e.id in env:
                return V.atom("‹%s›" % env[e.id])
            if e.id == NT:
                return V.atom("#nt")
            if e.id == NR:
                return V.atom("#nr")
            raise AnalysisError("name %s" % e.id)
        if isinstance(e, ast.BinOp) and isinstance(e.op, (ast.Add, ast.Sub, ast.Mult)):
            a, b = poly(e.left, env), poly(e.right, env)
            return a + b if isinstance(e.op, ast.Add) else a - b if isinstance(e.op, ast.Sub) else a * b
        raise AnalysisError("expression")

    want = V.atom("#nt") * V.atom("#nr") * V.atom("‹pair›") + V.atom("#nr") * V.atom("‹i›") + V.atom("‹j›")
    bad, n = [], 0
    try:
        for st, sl, env in visit(fn.body, {}):
            n += 1
            if not poly(sl, env).eq(want):
                bad.append((st.lineno, ast.unparse(sl)[:90]))
    except AnalysisError:
        return None
    return bad if n else None


def check_singular(ctx, fname, assembly_type, kparams):
    try:
        it, hooks, _ = run_assembler(ctx, fname, "singular", kparams)
    except AnalysisError as e:
        if "cannot decide aliasing of result[" not in str(e):
            raise
        bad = _static_result_slots(ctx, fname)
        if not bad:
            raise
        return [("layout", False, "result is written at `%s` (line %d), expected nshape_test*nshape_trial*pair + i*nshape_trial + j with i over range(nshape_test), j over range(nshape_trial): "
                 "the reader decodes that layout, so entries land in the wrong (test function, trial function) slot or collide" % (bad[0][1], bad[0][0]))], None, None
    out = []
    ws = final_writes(it, "result")
    if not ws:
        out.append(("layout", False, "no write to result"))
        return out, it, hooks
    idx = ws[-1][2]
    if any(not (a.eq(b)) for w in ws for a, b in zip(w[2], idx)):
        out.append(("layout", False, "writes to result use different slots"))
        return out, it, hooks
    total = it.read(ws[-1][0], list(idx), it.fn)
    # slot layout nshape_test*nshape_trial*pair + i*nshape_trial + j
    loops = ws[-1][4]
    lv = [V.atom(l.var) for l in loops]
    if len(lv) != 3:
        out.append(("layout", False, "final write is nested in %d symbolic loops, expected (pair, test fun, trial fun)" % len(lv)))
        return out, it, hooks
    nt, nr = opaque_atom("#nshape_test"), opaque_atom("#nshape_trial")
    pair = tf = rf = None
    for l in loops:
        if l.bound.eq(opaque_atom("#pairs")):
            pair = V.atom(l.var)
    cands = [l for l in loops if not l.bound.eq(opaque_atom("#pairs"))]
    oklay = False
    if pair is not None and len(cands) == 2:
        for a, b in ((cands[0], cands[1]), (cands[1], cands[0])):
            if a.bound.eq(nt) and b.bound.eq(nr) and idx[0].eq(nt * nr * pair + V.atom(a.var) * nr + V.atom(b.var)):
                tf, rf = V.atom(a.var), V.atom(b.var)
                oklay = True
                break
    out.append(("layout", oklay, "result slot is %s, expected nshape_test*nshape_trial*pair + i*nshape_trial + j" % symex.idx_str(idx[0])))
    if not oklay:
        return out, it, hooks
    init = opaque_atom("result", [idx[0]])
    total = total.subs({_single_atom(init): V.const(0)})
    sig, adj = markers(total)
    if len(sig) != 1 or adj:
        out.append(("integrand", False, "expected one reduction over the singular rule points, found %s %s" % (sig, adj)))
        return out, it, hooks
    s = V.atom(sigma_var(sig[0]))
    Et, Er = opaque_atom("test_elements", [pair]), opaque_atom("trial_elements", [pair])
    to, ro, wo = opaque_atom("test_offsets", [pair]), opaque_atom("trial_offsets", [pair]), opaque_atom("weights_offsets", [pair])
    tp = Pt("grid_data", Et, [opaque_atom("test_points", [0, to + s]), opaque_atom("test_points", [1, to + s])], None, "test_normal_multipliers")
    rp = Pt("grid_data", Er, [opaque_atom("trial_points", [0, ro + s]), opaque_atom("trial_points", [1, ro + s])], None, "trial_normal_multipliers")
    core = integrand_core(assembly_type, tp, rp, tf, rf, kparams)
    exp = core * opaque_atom("quad_weights", [wo + s]) * tp.J() * rp.J() * V.atom(sig[0])
    okv = total.eq(exp)
    out.append(("integrand", okv, "accumulated value differs from  sum_s K * W_s * J_x J_y * <%s integrand>" % assembly_type))
    # the reduction must run over number_of_quad_points[pair] points
    rng = symex.RANGES.get(sigma_var(sig[0]))
    okn = rng is not None and rng.eq(opaque_atom("number_of_quad_points", [pair]))
    out.append(("point-count", okn, "singular points loop bound is %s, expected number_of_quad_points[pair]" % (rng,)))
    return out, it, hooks


# ====================================================================== potentials


def _range_is(var, bound):
    r = symex.RANGES.get(var)
    return r is not None and r.eq(bound)


def potential_spec(assembly_type, P, rp, f, kparams, d):
    """Contribution of (element, quadrature point, shape function f) to component d at evaluation point P
    (list of 3 coordinates), without the Σ markers."""
    coeff = opaque_atom("x", [opaque_atom("#nshape") * rp.elem + f])
    if assembly_type == "default_scalar":
        Kat = opaque_atom("K", list(P) + rp.X() + [V.const(0)] * 3 + rp.n())
        return Kat * rp.J() * rp.weight * rp.phi("shapeset", f) * coeff
    Kat = opaque_atom("K", list(P) + rp.X() + NONE3 + NONE3)
    k = kparams[0] + I * kparams[1]
    a = [rp.weight * coeff * rp.ell(f) * rp.RT(f)[c] * rp.J() for c in range(3)]  # J w x l RT
    c2 = V.const(2) * rp.weight * coeff * rp.ell(f)
    diff = [P[c] - rp.X()[c] for c in range(3)]
    dist = dot3(diff, diff).sqrt()
    if assembly_type == "maxwell_electric_field":
        return Kat * (I * k * a[d] - diff[d] * (I * k * dist - V.const(1)) * c2 / (I * k * dist * dist))
    if assembly_type == "maxwell_magnetic_field":
        val = [Kat * (I * k * dist - V.const(1)) * a[c] / (dist * dist) for c in range(3)]
        return cross3(diff, val)[d]
    if assembly_type == "maxwell_electric_far_field":
        return Kat * (I * k * a[d] - P[d] * c2)
    if assembly_type == "maxwell_magnetic_far_field":
        val = [Kat * I * k * a[c] for c in range(3)]
        return cross3(P, val)[d]
    raise AnalysisError("no potential spec for " + assembly_type)


def check_potential(ctx, fname, assembly_type, kparams, kernel_dimension):
    it, hooks, ret = run_assembler(ctx, fname, "potential", kparams, kernel_dimension=kernel_dimension)
    out = []
    if not isinstance(ret, Arr):
        out.append(("result", False, "potential kernel does not return its result array"))
        return out, it, hooks
    nq, ns, nf = opaque_atom("#quad"), opaque_atom("#support"), opaque_atom("#nshape")
    # evaluation-point loop variable: the parallel loop
    ploops = [l for w in it.writes if w[0] is ret for l in w[4] if l.parallel]
    if not ploops:
        out.append(("result", False, "result is not written inside a prange over evaluation points"))
        return out, it, hooks
    pv = V.atom(ploops[0].var)
    P = [opaque_atom("points", [c, pv]) for c in range(3)]
    okall = True
    msgs = []
    for d in range(kernel_dimension):
        val = it.read(ret, [V.const(d), pv], it.fn)
        sig, _ = markers(val)
        fl = [s for s in sig if _range_is(sigma_var(s), nf)]
        tl = [s for s in sig if _range_is(sigma_var(s), nq * ns)]
        if len(sig) != 2 or len(fl) != 1 or len(tl) != 1:
            okall = False
            msgs.append("component %d: reductions %s are not (shape functions, support elements x quadrature points)" % (d, sig))
            continue
        Ev_, Qv = symex.fresh("E"), symex.fresh("Q")
        symex.RANGES[Ev_], symex.RANGES[Qv] = ns, nq
        E, Q = V.atom(Ev_), V.atom(Qv)
        tv = sigma_var(tl[0])
        act = symex.subst_index(val, {tv: nq * E + Q})
        act = act.subs({tl[0]: sigma(Ev_) * sigma(Qv)})
        f = V.atom(sigma_var(fl[0]))
        rp = Pt("grid_data", opaque_atom("support_elements", [E]), [opaque_atom("quad_points", [0, Q]), opaque_atom("quad_points", [1, Q])],
                opaque_atom("quad_weights", [Q]), "normal_multipliers")
        exp = potential_spec(assembly_type, P, rp, f, kparams, d) * V.atom(fl[0]) * sigma(Ev_) * sigma(Qv)
        if not act.eq(exp):
            okall = False
            msgs.append("component %d differs from the closed-form kernel sum" % d)
    out.append(("kernel-sum", okall, "; ".join(msgs)))
    # per-source data independent of the evaluation point: no write to anything but `result` inside the prange
    leaks = sorted({w[0].desc for w in it.writes if w[0] is not ret and any(l.parallel for l in w[4]) and w[0].depth <= it.loops.__len__() and not _created_inside_parallel(w)})
    out.append(("source-data-hoisted", not leaks, "arrays shared between evaluation points are written inside the prange: %s" % leaks))
    return out, it, hooks


def _created_inside_parallel(w):
    arr, loops = w[0], w[4]
    par_depth = next((i for i, l in enumerate(loops) if l.parallel), None)
    return par_depth is not None and arr.depth > par_depth
