"""C14: compatibility guards reject exactly the incompatible operands (polarity, not just presence).

COMPAT-GUARD establishes *which* pairs a guard compares.  This rule executes each guarded constructor / method abstractly
(sa/dispatch.effects) in the worlds "all pairs compatible" and "exactly one pair incompatible" and requires:
no raise in the first, a raise before the combining step in each of the others.  Compatibility is modelled by tokens:
compatible operands evaluate to the same token, `x.is_compatible(y)` / `x == y` are decided from the tokens, so the rule
does not depend on which of the two spellings (or `not ... or not ...` vs `!=`) the code uses.
"""

import ast

from . import dispatch
from .core import AnalysisError
from .src import unparse

BO = "bempp_cl/api/assembly/boundary_operator.py"
BL = "bempp_cl/api/assembly/blocked_operator.py"
DO = "bempp_cl/api/assembly/discrete_boundary_operator.py"
PO = "bempp_cl/api/assembly/potential_operator.py"
GF = "bempp_cl/api/assembly/grid_function.py"

# (module, function, [(left chain, right chain)], extra env for predicates that select the guarded path)
SITES = [
    (BO, "_SumBoundaryOperator.__init__", [("op1.domain", "op2.domain"), ("op1.range", "op2.range"), ("op1.dual_to_range", "op2.dual_to_range")], {}),
    (BO, "_ProductBoundaryOperator.__init__", [("op2.range", "op1.domain")], {}),
    (BL, "SumBlockedOperator.__init__", [("op1.domain_spaces", "op2.domain_spaces"), ("op1.range_spaces", "op2.range_spaces"), ("op1.dual_to_range_spaces", "op2.dual_to_range_spaces")], {}),
    (BL, "ProductBlockedOperator.__init__", [("op2.range_spaces", "op1.domain_spaces")], {}),
    (GF, "GridFunction.__add__", [("self.space", "other.space")], {"self.representation": "primal", "other.representation": "primal"}),
    (GF, "GridFunction.__sub__", [("self.space", "other.space")], {}),
    (PO, "PotentialOperator.__add__", [("self", "obj")], {}),
    (DO, "_SumDiscreteOperator.__init__", [("op1.shape", "op2.shape")], {}),
    (DO, "_ProductDiscreteOperator.__init__", [("op1.shape[1]", "op2.shape[0]")], {}),
]


def _worlds(pairs):
    yield "all compatible", None
    for i, p in enumerate(pairs):
        yield "%s incompatible with %s" % p, i


def _env(fn, pairs, bad, extra):
    env = dict(extra)
    for i, (a, b) in enumerate(pairs):
        env[a] = "tok%d" % i
        env[b] = "tok%d" % i if i != bad else "other%d" % i
    # list-valued chains compared element-wise (blocked operators): each position carries the token
    for n in ast.walk(fn):
        if isinstance(n, ast.Call) and isinstance(n.func, ast.Attribute) and n.func.attr in ("is_compatible", "_is_compatible") and len(n.args) == 1:
            a, b = unparse(n.func.value), unparse(n.args[0])
            if a in env and b in env:
                env[unparse(n)] = env[a] == env[b]
        if isinstance(n, ast.Call) and isinstance(n.func, ast.Name) and n.func.id == "isinstance":
            env.setdefault(unparse(n), False)
    return env


def verdicts(fn, pairs, extra):
    body = [s for s in fn.body if not (isinstance(s, ast.Expr) and isinstance(s.value, ast.Constant)) and not isinstance(s, (ast.Import, ast.ImportFrom))]
    out = []
    for name, bad in _worlds(pairs):
        try:
            effs = dispatch.effects(body, _env(fn, pairs, bad, extra), fn.name)
        except AnalysisError as e:
            out.append((name, None, str(e)))
            continue
        raised = [i for i, e in enumerate(effs) if e[0] == "raise"]
        if bad is None:
            out.append((name, not raised, "compatible operands are rejected (a raise is reached with every pair compatible)"))
        else:
            first_other = min([i for i, e in enumerate(effs) if e[0] in ("call", "store", "return")] or [len(effs)])
            ok = bool(raised) and raised[0] <= first_other
            out.append((name, ok, "operands with %s are combined without an error (no raise before the combining step)" % name))
    return out


def _blocked_env_hint(fn):
    return {}


def guard_polarity(ctx):
    r = ctx.rule("GUARD-POLARITY", "each compatibility guard, executed abstractly: no error when every compared pair is compatible, an error before the operands are combined when any one pair is not", 16)
    for rel, qn, pairs, extra in SITES:
        fn = ctx.repo.mod(rel).fn(qn)
        loops = [s for s in fn.body if isinstance(s, ast.For)]
        if loops and any(isinstance(x, ast.Raise) for l in loops for x in ast.walk(l)):
            # element-wise guards over lists of spaces: the loop body decides one position
            for l in loops:
                if not any(isinstance(x, ast.Raise) for x in ast.walk(l)):
                    continue
                res = _loop_guard(fn, l, pairs)
                for name, ok, msg in res:
                    if ok is None:
                        raise AnalysisError("%s: %s" % (qn, msg))
                    r.check(ok, "%s: %s" % (qn, name), rel, qn, l.lineno, "guard polarity of %s (%s)" % (qn, name), msg)
            continue
        for name, ok, msg in verdicts(fn, pairs, extra):
            if ok is None:
                raise AnalysisError("%s: %s" % (qn, msg))
            r.check(ok, "%s: %s" % (qn, name), rel, qn, fn.lineno, "guard polarity of %s (%s)" % (qn, name), msg)
    # the potential operators' own predicate: equal component counts, identical evaluation points, compatible spaces
    fn = ctx.repo.mod(PO).fn("PotentialOperator._is_compatible")
    rets = [n for n in ast.walk(fn) if isinstance(n, ast.Return)]
    if len(rets) != 1:
        raise AnalysisError("PotentialOperator._is_compatible: expected one return")
    o = [a.arg for a in fn.args.args][1]
    both = [n for n in ast.walk(rets[0].value) if isinstance(n, ast.Call) and "self.evaluation_points" in unparse(n) and "%s.evaluation_points" % o in unparse(n)]
    if not both:
        raise AnalysisError("PotentialOperator._is_compatible: no expression compares the evaluation points of the two operators")
    outer = max(both, key=lambda n: len(unparse(n)))
    boolean = unparse(outer.func).split(".")[-1] in ("array_equal", "allclose", "all", "array_equiv")
    if not boolean:
        # a distance: it vanishes for identical points only if it is taken of the difference of the two point sets
        a0 = outer.args[0] if outer.args else None
        diff = isinstance(a0, ast.BinOp) and isinstance(a0.op, ast.Sub) and {unparse(a0.left), unparse(a0.right)} == {"self.evaluation_points", "%s.evaluation_points" % o}
        r.check(diff, "PotentialOperator._is_compatible: distance of the evaluation points", PO, "PotentialOperator._is_compatible", fn.lineno, "evaluation point distance",
                "`%s` is not a norm of the difference of the two operators' evaluation points: identical points are not recognised as identical" % unparse(outer)[:90])
    for cc in (True, False):
        for pts in (True, False):
            for sp in (True, False):
                env = {"self.component_count": 3, "%s.component_count" % o: 3 if cc else 1, unparse(outer): (pts if boolean else (0.0 if pts else 0.7)),
                       "self.space.is_compatible(%s.space)" % o: sp, "%s.space.is_compatible(self.space)" % o: sp, "self.space": "s", "%s.space" % o: "s" if sp else "t"}
                try:
                    got = bool(dispatch.value(rets[0].value, env))
                except dispatch.Unknown as u:
                    raise AnalysisError("PotentialOperator._is_compatible: not decided by (component counts, evaluation points, spaces): %s" % u)
                r.check(got == (cc and pts and sp), "PotentialOperator._is_compatible: components %s, points %s, spaces %s" % ("equal" if cc else "differ", "equal" if pts else "differ", "compatible" if sp else "incompatible"),
                        PO, "PotentialOperator._is_compatible", fn.lineno, "potential operator compatibility predicate",
                        "operands with %s component counts, %s evaluation points and %s spaces are reported as %s" % ("equal" if cc else "different", "identical" if pts else "different", "compatible" if sp else "incompatible", "compatible" if got else "incompatible"))
    bad = ast.parse("def __init__(self, op1, op2):\n    if op1.domain.is_compatible(op2.domain):\n        raise ValueError('x')\n    super().__init__(op1.domain)\n").body[0]
    v = verdicts(bad, [("op1.domain", "op2.domain")], {})
    r.must_fire(any(ok is False for _, ok, _ in v), "guard that raises for compatible spaces")


def _loop_guard(fn, loop, pairs):
    """Guards of the form `for a, b in zip(X, Y): if not a.is_compatible(b): raise`: one iteration, tokens on the loop variables."""
    out = []
    it = loop.iter
    if not (isinstance(it, ast.Call) and unparse(it.func) == "zip" and len(it.args) == 2 and isinstance(loop.target, ast.Tuple) and len(loop.target.elts) == 2):
        return [("element-wise guard", None, "raising loop is not `for a, b in zip(X, Y)`")]
    X, Y = unparse(it.args[0]), unparse(it.args[1])
    a, b = (unparse(t) for t in loop.target.elts)
    if frozenset((X, Y)) not in {frozenset(p) for p in pairs}:
        return [("element-wise guard over (%s, %s)" % (X, Y), False, "the loop compares %s with %s, which is not one of the pairs that must be compatible" % (X, Y))]
    for name, same in (("position compatible", True), ("position incompatible", False)):
        env = {a: "tok", b: "tok" if same else "other"}
        for n in ast.walk(loop):
            if isinstance(n, ast.Call) and isinstance(n.func, ast.Attribute) and n.func.attr == "is_compatible" and len(n.args) == 1:
                l, rr = unparse(n.func.value), unparse(n.args[0])
                if l in env and rr in env:
                    env[unparse(n)] = env[l] == env[rr]
        effs = dispatch.effects(loop.body, env, fn.name)
        raised = any(e[0] == "raise" for e in effs)
        out.append(("%s vs %s, %s" % (X, Y, name), raised != same, "an element-wise guard over (%s, %s) %s" % (X, Y, "rejects compatible spaces" if same else "accepts incompatible spaces")))
    return out
