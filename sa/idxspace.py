"""C09/C10: per-element tables of the coarse grid and of its barycentric refinement are not confused.

The dual-space and Buffa-Christiansen builders work with two grids at once: the coarse grid (n elements) and its
barycentric refinement (6n elements, element 6e+j inside coarse element e).  A boolean / integer table with one entry
per element of one of them must be subscripted with an element number of the same grid; the number of a coarse element
used as an index into a barycentric table silently reads the flag of an unrelated sub-triangle.

Typing: a table's grid is read from its allocation (`zeros(G.number_of_elements)`); an index's grid from where it comes
from (entries of `coarse_space.global2local`, `coarse_space.support_elements`, neighbour lists of the coarse grid ...).
Only subscripts whose two sides can both be typed are judged.
"""

import ast

from . import roles
from .core import AnalysisError
from .src import arg_names, unparse

FILES = [
    ("bempp_cl/api/space/scalar_dual_spaces.py", ("dual0_function_space", "dual1_function_space")),
    ("bempp_cl/api/grid/grid.py", ("_get_barycentric_support",)),
]


def _grid_of_text(t):
    t = t.replace(" ", "")
    if "barycentric_refinement" in t or t.startswith("bary_grid") or ".bary_grid" in t:
        return "barycentric"
    if t in ("grid", "coarse_grid") or t.endswith(".grid"):
        return "coarse"
    return None


def table_grids(fn, defs):
    """{local name: grid} for tables allocated with one entry per element of a grid."""
    out = {}
    for st in ast.walk(fn):
        if isinstance(st, ast.Assign) and isinstance(st.targets[0], ast.Name) and isinstance(st.value, ast.Call) and unparse(st.value.func).split(".")[-1] in ("zeros", "ones", "empty", "full") and st.value.args:
            shp = st.value.args[0]
            first = shp.elts[0] if isinstance(shp, ast.Tuple) and shp.elts else shp
            c = roles.canon(first, defs).replace(" ", "")
            g = None
            if c.endswith(".number_of_elements"):
                g = _grid_of_text(c[: -len(".number_of_elements")])
            elif c.endswith(".entity_count(0)"):
                g = _grid_of_text(c[: -len(".entity_count(0)")])
            if g:
                out[st.targets[0].id] = (g, st.lineno)
    return out


def _one_level(node, defs):
    """A name replaced by its (unique, reaching) definition once; anything else unchanged."""
    if isinstance(node, ast.Name):
        d = defs.lookup(node.id, getattr(node, "lineno", None))
        if d is not None and d[0] == "expr":
            return d[1]
    return node


def _source(node, defs):
    """('pairs' | 'elements', grid) when the iterable yields element numbers (or (element, local index) pairs) of a grid."""
    node = _one_level(node, defs)
    if isinstance(node, ast.Subscript) and isinstance(node.value, ast.Attribute):
        base = node.value
        if base.attr == "global2local":
            return "pairs", ("barycentric" if "bary" in unparse(base.value) else "coarse")
        if base.attr == "edge_neighbors":
            return "elements", _grid_of_text(unparse(base.value))
        if base.attr == "indices" and isinstance(base.value, ast.Attribute) and base.value.attr == "vertex_neighbors":
            return "elements", _grid_of_text(unparse(base.value.value))
    if isinstance(node, ast.Attribute) and node.attr == "support_elements":
        return "elements", ("barycentric" if "bary" in unparse(node.value) else "coarse")
    if isinstance(node, ast.Name) and node.id == "bary_support_elements":
        return "elements", "barycentric"
    return None, None


def index_grids(fn, defs):
    """{(name, binding line): grid} for names that hold an element number of a known grid."""
    out = {}
    for n in ast.walk(fn):
        if isinstance(n, ast.For):
            kind, g = _source(n.iter, defs)
            if g is None:
                continue
            if kind == "elements" and isinstance(n.target, ast.Name):
                out[(n.target.id, n.lineno)] = g
            elif kind == "pairs" and isinstance(n.target, ast.Tuple) and n.target.elts and isinstance(n.target.elts[0], ast.Name):
                out[(n.target.elts[0].id, n.lineno)] = g
        elif isinstance(n, ast.Assign) and isinstance(n.targets[0], ast.Name):
            v = n.value
            # first element of the first (element, local index) pair of a dof
            if isinstance(v, ast.Subscript) and isinstance(v.value, ast.Subscript) and isinstance(v.slice, ast.Constant) and v.slice.value == 0 and isinstance(v.value.slice, ast.Constant) and v.value.slice.value == 0:
                kind, g = _source(v.value.value, defs)
                if kind == "pairs":
                    out[(n.targets[0].id, n.lineno)] = g
    return out


def findings(fn):
    defs = roles.Defs(fn)
    tabs = table_grids(fn, defs)
    idxs = index_grids(fn, defs)
    judged, bad = 0, []
    for n in ast.walk(fn):
        if not (isinstance(n, ast.Subscript) and isinstance(n.value, ast.Name) and n.value.id in tabs and isinstance(n.slice, ast.Name)):
            continue
        cands = [(ln, g) for (nm, ln), g in idxs.items() if nm == n.slice.id and ln <= n.lineno]
        if not cands:
            continue
        g = max(cands)[1]
        judged += 1
        if g != tabs[n.value.id][0]:
            bad.append((n.lineno, unparse(n), tabs[n.value.id][0], g))
    return judged, bad


def index_spaces(ctx):
    r = ctx.rule("IDX-GRID-SPACE", "dual / barycentric builders: a per-element table of the coarse grid (or of its barycentric refinement) is subscripted only with element numbers of that same grid", 3)
    total = 0
    for rel, fns in FILES:
        m = ctx.repo.mod(rel)
        for name in fns:
            fn = m.fn(name)
            judged, bad = findings(fn)
            total += judged
            if not bad:
                r.ok("%s (%d typed subscripts)" % (name, judged))
            for ln, txt, tg, ig in bad:
                r.fail("%s: %s" % (name, txt), rel, name, ln, "%s table indexed by a %s element number: %s" % (tg, ig, txt),
                       "`%s` reads a table with one entry per %s element at the number of a %s element: the flag tested belongs to an unrelated element (sub-triangle 6e+j lies in coarse element e)" % (txt, tg, ig))
    if total < 4:
        raise AnalysisError("index-space typing judged only %d subscripts in the dual-space builders" % total)
    bad = ast.parse("def dual0_function_space(grid, truncate):\n    bary_grid = grid.barycentric_refinement\n    support = _np.zeros(bary_grid.number_of_elements)\n    for d in range(3):\n        local_dofs = coarse_space.global2local[d]\n        for face, vertex in local_dofs:\n            if support[face]:\n                pass\n").body[0]
    r.must_fire(len(findings(bad)[1]) == 1, "barycentric support flag read at a coarse element number")
